// Command siminstr rewrites a scratch copy of cinar/indicator so that every synchronisation
// operation goes through package simrt (see /verif/simrt). It never touches /repo.
//
// usage: siminstr <dir of the scratch copy> <path of the simrt module>
//
// Rewrites (type-aware, go/packages):
//
//	go f(a, b)            -> { a0, b0 := a, b; simrt.Go(func() { f(a0, b0) }) }
//	ch <- v               -> simrt.Yield(site, "send"); ch <- v
//	<-ch                  -> simrt.Recv(site, ch)        v, ok := <-ch -> simrt.Recv2(site, ch)
//	for x := range ch     -> for x := range simrt.Chan(site, ch)
//	close(ch)             -> simrt.Close(site, ch)
//	wg.Wait()             -> simrt.Yield(site, "wait"); wg.Wait()   (call wrapped in a func literal)
//	mu.Lock()/Unlock()    -> simrt.Lock/Unlock(site, &mu)  (RLock/RUnlock alike)
//	select { ... }        -> simrt.Yield(site, "select"); select { ... }
//	x.Load() (sync/atomic) -> simrt.Atomic(site, x.Load())          x.Store(v) -> x.Store(v); simrt.Yield(site, "atomic")
//	time.Sleep(d)         -> simrt.Sleep(site, d)         time.Now() -> simrt.Now()
//	os.Open/OpenFile/Create/Stat/ReadDir/MkdirAll -> simrt.OsOpen/... (file-system seam; -noos disables)
//
// Operations inside the communication clause of a select are left alone (the yield before the
// select covers them). The site table is written to <dir>/SITES.txt.
package main

import (
	"bytes"
	"fmt"
	"go/ast"
	"go/format"
	"go/token"
	"go/types"
	"os"
	"path/filepath"
	"regexp"
	"sort"
	"strconv"
	"strings"

	"golang.org/x/tools/go/ast/astutil"
	"golang.org/x/tools/go/packages"
)

var (
	siteN int
	sites []string
	root  string
	kinds = map[string]int{}
)

func site(fset *token.FileSet, pos token.Pos, kind string) ast.Expr {
	siteN++
	kinds[kind]++
	p := fset.Position(pos)
	rel, err := filepath.Rel(root, p.Filename)
	if err != nil {
		rel = p.Filename
	}
	sites = append(sites, fmt.Sprintf("%d %s:%d %s", siteN, rel, p.Line, kind))
	return &ast.BasicLit{Kind: token.INT, Value: strconv.Itoa(siteN)}
}

func sel(name string) ast.Expr {
	return &ast.SelectorExpr{X: ast.NewIdent("simrt"), Sel: ast.NewIdent(name)}
}

func str(s string) ast.Expr { return &ast.BasicLit{Kind: token.STRING, Value: strconv.Quote(s)} }

func fail(format string, a ...any) {
	fmt.Fprintf(os.Stderr, "siminstr: "+format+"\n", a...)
	os.Exit(2)
}

// funcFullName returns e.g. "(*sync.WaitGroup).Wait" or "time.Sleep" for the callee of call.
// isAtomic: a method of a sync/atomic type or a function of that package.
func isAtomic(full string) bool {
	return strings.HasPrefix(full, "(*sync/atomic.") || strings.HasPrefix(full, "sync/atomic.")
}

func funcFullName(info *types.Info, call *ast.CallExpr) string {
	var id *ast.Ident
	switch f := call.Fun.(type) {
	case *ast.SelectorExpr:
		id = f.Sel
	case *ast.Ident:
		id = f
	default:
		return ""
	}
	if fn, ok := info.Uses[id].(*types.Func); ok {
		return fn.FullName()
	}
	return ""
}

// addrOf returns an expression of pointer type for the receiver x of a pointer-receiver method.
func addrOf(info *types.Info, x ast.Expr) ast.Expr {
	if t := info.TypeOf(x); t != nil {
		if _, ok := t.Underlying().(*types.Pointer); ok {
			return x
		}
	}
	return &ast.UnaryExpr{Op: token.AND, X: x}
}

// rewriteOS: route the library's file-system calls through simrt (fault injection on files). The
// check script retries with -noos when the rewritten tree does not build (a *os.File typed
// declaration would not accept the wrapper), so that such a tree is still checked, without file
// faults, instead of getting no verdict.
var rewriteOS = true

func main() {
	if len(os.Args) == 4 && os.Args[1] == "-noos" {
		rewriteOS = false
		os.Args = append(os.Args[:1], os.Args[2:]...)
	}
	if len(os.Args) != 3 {
		fail("usage: siminstr [-noos] <dir> <simrt module dir>")
	}
	var err error
	root, err = filepath.Abs(os.Args[1])
	if err != nil {
		fail("%v", err)
	}
	simrtDir, _ := filepath.Abs(os.Args[2])
	cfg := &packages.Config{
		Mode: packages.NeedName | packages.NeedFiles | packages.NeedSyntax | packages.NeedTypes |
			packages.NeedTypesInfo | packages.NeedImports | packages.NeedDeps,
		Dir: root,
	}
	pkgs, err := packages.Load(cfg, "./...")
	if err != nil {
		fail("load: %v", err)
	}
	sort.Slice(pkgs, func(i, j int) bool { return pkgs[i].PkgPath < pkgs[j].PkgPath })
	for _, p := range pkgs {
		if len(p.Errors) > 0 {
			fail("package %s does not type-check: %v", p.PkgPath, p.Errors)
		}
	}
	for _, p := range pkgs {
		files := append([]*ast.File(nil), p.Syntax...)
		sort.Slice(files, func(i, j int) bool {
			return p.Fset.Position(files[i].Pos()).Filename < p.Fset.Position(files[j].Pos()).Filename
		})
		for _, f := range files {
			instrumentFile(p, f)
		}
	}
	// go.mod
	modPath := filepath.Join(root, "go.mod")
	mod, err := os.ReadFile(modPath)
	if err != nil {
		fail("%v", err)
	}
	re := regexp.MustCompile(`(?m)^go \S+$`)
	ms := re.ReplaceAllString(string(mod), "go 1.26")
	ms = regexp.MustCompile(`(?m)^toolchain .*$`).ReplaceAllString(ms, "")
	ms += "\nrequire simrt v0.0.0\n\nreplace simrt => " + simrtDir + "\n"
	if err := os.WriteFile(modPath, []byte(ms), 0o644); err != nil {
		fail("%v", err)
	}
	if err := os.WriteFile(filepath.Join(root, "SITES.txt"), []byte(strings.Join(sites, "\n")+"\n"), 0o644); err != nil {
		fail("%v", err)
	}
	var ks []string
	for k, n := range kinds {
		ks = append(ks, fmt.Sprintf("%s=%d", k, n))
	}
	sort.Strings(ks)
	fmt.Printf("siminstr: %d sites (%s)\n", siteN, strings.Join(ks, " "))
}

var nLoops int

func instrumentFile(p *packages.Package, f *ast.File) {
	fset := p.Fset
	info := p.TypesInfo
	changed := false
	recv2 := map[*ast.UnaryExpr]bool{}
	skip := map[ast.Node]bool{} // nodes inside select communication clauses
	ast.Inspect(f, func(n ast.Node) bool {
		switch x := n.(type) {
		case *ast.AssignStmt:
			if len(x.Lhs) == 2 && len(x.Rhs) == 1 {
				if u, ok := x.Rhs[0].(*ast.UnaryExpr); ok && u.Op == token.ARROW {
					recv2[u] = true
				}
			}
		case *ast.ValueSpec:
			if len(x.Names) == 2 && len(x.Values) == 1 {
				if u, ok := x.Values[0].(*ast.UnaryExpr); ok && u.Op == token.ARROW {
					recv2[u] = true
				}
			}
		case *ast.CommClause:
			if x.Comm != nil {
				ast.Inspect(x.Comm, func(m ast.Node) bool {
					if m != nil {
						skip[m] = true
					}
					return true
				})
			}
		}
		return true
	})
	tmpN := 0
	tmp := func() *ast.Ident { tmpN++; return ast.NewIdent(fmt.Sprintf("simArg%d", tmpN)) }

	yieldStmt := func(pos token.Pos, kind string) ast.Stmt {
		return &ast.ExprStmt{X: &ast.CallExpr{Fun: sel("Yield"), Args: []ast.Expr{site(fset, pos, kind), str(kind)}}}
	}

	astutil.Apply(f, func(c *astutil.Cursor) bool {
		n := c.Node()
		if n == nil || skip[n] {
			return true
		}
		switch x := n.(type) {
		case *ast.SendStmt:
			y := yieldStmt(x.Pos(), "send")
			if c.Index() >= 0 {
				c.InsertBefore(y)
			} else {
				c.Replace(&ast.BlockStmt{List: []ast.Stmt{y, x}})
			}
			changed = true
		case *ast.SelectStmt:
			y := yieldStmt(x.Pos(), "select")
			if c.Index() >= 0 {
				c.InsertBefore(y)
				changed = true
			}
		case *ast.GoStmt:
			c.Replace(rewriteGo(info, x, tmp))
			changed = true
		case *ast.ExprStmt:
			// an atomic operation without a result (Store): another task may run right after it
			if call, ok := x.X.(*ast.CallExpr); ok && isAtomic(funcFullName(info, call)) && c.Index() >= 0 {
				if tv, ok := info.Types[call]; ok && tv.IsVoid() {
					c.InsertAfter(yieldStmt(x.Pos(), "atomic"))
					changed = true
				}
			}
		}
		return true
	}, func(c *astutil.Cursor) bool {
		n := c.Node()
		if n == nil || skip[n] {
			return true
		}
		switch x := n.(type) {
		case *ast.UnaryExpr:
			if x.Op == token.ARROW {
				name := "Recv"
				if recv2[x] {
					name = "Recv2"
				}
				c.Replace(&ast.CallExpr{Fun: sel(name), Args: []ast.Expr{site(fset, x.Pos(), "recv"), x.X}})
				changed = true
			}
		case *ast.RangeStmt:
			isChan := false
			if t := info.TypeOf(x.X); t != nil {
				if _, ok := t.Underlying().(*types.Chan); ok {
					isChan = true
					x.X = &ast.CallExpr{Fun: sel("Chan"), Args: []ast.Expr{site(fset, x.Pos(), "range"), x.X}}
					changed = true
				}
			}
			if !isChan && x.Body != nil {
				// loops that never block are counted: a goroutine that iterates for ever is a hang
				x.Body.List = append([]ast.Stmt{&ast.ExprStmt{X: &ast.CallExpr{Fun: sel("LoopTick")}}}, x.Body.List...)
				changed = true
				nLoops++
			}
		case *ast.ForStmt:
			if x.Body != nil {
				x.Body.List = append([]ast.Stmt{&ast.ExprStmt{X: &ast.CallExpr{Fun: sel("LoopTick")}}}, x.Body.List...)
				changed = true
				nLoops++
			}
		case *ast.CallExpr:
			if id, ok := x.Fun.(*ast.Ident); ok && id.Name == "close" {
				if _, ok := info.Uses[id].(*types.Builtin); ok {
					x.Fun = sel("Close")
					x.Args = append([]ast.Expr{site(fset, x.Pos(), "close")}, x.Args...)
					changed = true
					return true
				}
			}
			full := funcFullName(info, x)
			if isAtomic(full) {
				// an atomic operation with a result (Load, Add, Swap, CompareAndSwap): the result is
				// passed through simrt.Atomic, which lets another task run before it is used
				if tv, ok := info.Types[x]; ok && !tv.IsVoid() {
					c.Replace(&ast.CallExpr{Fun: sel("Atomic"), Args: []ast.Expr{site(fset, x.Pos(), "atomic"), x}})
					changed = true
				}
				return true
			}
			switch full {
			case "os.Open", "os.OpenFile", "os.Create", "os.Stat", "os.ReadDir", "os.MkdirAll":
				if rewriteOS {
					x.Fun = sel("Os" + strings.TrimPrefix(full, "os."))
					kinds["os"]++
					changed = true
				}
			case "time.Sleep":
				x.Fun = sel("Sleep")
				x.Args = append([]ast.Expr{site(fset, x.Pos(), "sleep")}, x.Args...)
				changed = true
			case "time.Now":
				x.Fun = sel("Now")
				changed = true
			case "(*sync.WaitGroup).Wait":
				recv := x.Fun.(*ast.SelectorExpr).X
				x.Fun = sel("Wait")
				x.Args = []ast.Expr{site(fset, x.Pos(), "wait"), addrOf(info, recv)}
				changed = true
			case "(*sync.Mutex).Lock", "(*sync.RWMutex).Lock":
				recv := x.Fun.(*ast.SelectorExpr).X
				x.Fun = sel("Lock")
				x.Args = []ast.Expr{site(fset, x.Pos(), "lock"), addrOf(info, recv)}
				changed = true
			case "(*sync.Mutex).Unlock", "(*sync.RWMutex).Unlock":
				recv := x.Fun.(*ast.SelectorExpr).X
				x.Fun = sel("Unlock")
				x.Args = []ast.Expr{site(fset, x.Pos(), "unlock"), addrOf(info, recv)}
				changed = true
			case "(*sync.RWMutex).RLock":
				recv := x.Fun.(*ast.SelectorExpr).X
				x.Fun = sel("RLock")
				x.Args = []ast.Expr{site(fset, x.Pos(), "lock"), addrOf(info, recv)}
				changed = true
			case "(*sync.RWMutex).RUnlock":
				recv := x.Fun.(*ast.SelectorExpr).X
				x.Fun = sel("RUnlock")
				x.Args = []ast.Expr{site(fset, x.Pos(), "unlock"), addrOf(info, recv)}
				changed = true
			}
		}
		return true
	})
	if !changed {
		return
	}
	astutil.AddImport(fset, f, "simrt")
	for _, imp := range []string{"time", "sync", "os"} {
		if !astutil.UsesImport(f, imp) {
			astutil.DeleteImport(fset, f, imp)
		}
	}
	var buf bytes.Buffer
	if err := format.Node(&buf, fset, f); err != nil {
		fail("format %s: %v", fset.Position(f.Pos()).Filename, err)
	}
	if err := os.WriteFile(fset.Position(f.Pos()).Filename, buf.Bytes(), 0o644); err != nil {
		fail("%v", err)
	}
}

// rewriteGo turns a go statement into a block that evaluates the function value and the
// arguments at the point of the go statement (as Go does) and hands a closure to simrt.Go.
func rewriteGo(info *types.Info, g *ast.GoStmt, tmp func() *ast.Ident) ast.Stmt {
	call := g.Call
	if fl, ok := call.Fun.(*ast.FuncLit); ok && len(call.Args) == 0 {
		return &ast.ExprStmt{X: &ast.CallExpr{Fun: sel("Go"), Args: []ast.Expr{fl}}}
	}
	var lhs, rhs []ast.Expr
	bind := func(e ast.Expr) ast.Expr {
		if tv, ok := info.Types[e]; ok && (tv.Value != nil || tv.IsNil() || tv.IsType()) {
			return e
		}
		id := tmp()
		lhs = append(lhs, id)
		rhs = append(rhs, e)
		return ast.NewIdent(id.Name)
	}
	newCall := &ast.CallExpr{Fun: call.Fun, Ellipsis: call.Ellipsis}
	// function value: bind method values and func-typed variables; leave package-level
	// functions (possibly generic, with inferred type arguments) in place.
	switch fn := call.Fun.(type) {
	case *ast.SelectorExpr:
		if s, ok := info.Selections[fn]; ok && s.Kind() == types.MethodVal {
			// bind the receiver (its address for a pointer-receiver method on an addressable
			// value, as the language does), keep the method selection
			var recv ast.Expr = fn.X
			if sig, ok := s.Obj().Type().(*types.Signature); ok && sig.Recv() != nil {
				if _, ptrRecv := sig.Recv().Type().(*types.Pointer); ptrRecv {
					recv = addrOf(info, recv)
				}
			}
			newCall.Fun = &ast.SelectorExpr{X: bind(recv), Sel: fn.Sel}
		} else if s != nil && s.Kind() == types.FieldVal {
			newCall.Fun = bind(fn)
		}
	case *ast.Ident:
		if _, ok := info.Uses[fn].(*types.Var); ok {
			newCall.Fun = bind(fn)
		}
	}
	for _, a := range call.Args {
		if _, tuple := info.TypeOf(a).(*types.Tuple); tuple {
			newCall.Args = append(newCall.Args, a)
			continue
		}
		newCall.Args = append(newCall.Args, bind(a))
	}
	goCall := &ast.ExprStmt{X: &ast.CallExpr{Fun: sel("Go"), Args: []ast.Expr{
		&ast.FuncLit{Type: &ast.FuncType{Params: &ast.FieldList{}}, Body: &ast.BlockStmt{List: []ast.Stmt{&ast.ExprStmt{X: newCall}}}},
	}}}
	if len(lhs) == 0 {
		return goCall
	}
	return &ast.BlockStmt{List: []ast.Stmt{
		&ast.AssignStmt{Lhs: lhs, Tok: token.DEFINE, Rhs: rhs},
		goCall,
	}}
}
