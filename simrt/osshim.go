package simrt

import (
	"errors"
	"io/fs"
	"os"
	"strings"
	"sync"
)

// The file-system seam. The instrumenter rewrites os.Open / os.OpenFile / os.Create / os.Stat /
// os.ReadDir / os.MkdirAll of the library into the functions below. Without an active simulation,
// or without a fault plan, they are the real operating system. With a plan they still use real
// files (in the per-run directory) and additionally inject the faults a deployment meets: an open
// that fails, a read that returns EIO at an offset, a disk that is full after k more bytes (short
// write + ENOSPC), a close that fails.

// FileFault is one scripted fault.
type FileFault struct {
	Op         string // open read write close stat readdir
	PathSuffix string // applies to paths with this suffix ("" = any)
	Nth        int    // fire on the n-th matching call (1-based; 0 = every call)
	After      int    // read/write: bytes that still succeed on this file before the fault
	Err        error
	calls      int
}

// FaultPlan is the fault script of one simulated run.
type FaultPlan struct {
	mu    sync.Mutex
	Rules []*FileFault
	Fired map[string]int
	Paths map[string]int // path -> injected faults that fired on it
}

// ErrInjected is the default error of injected file faults.
var ErrInjected = errors.New("injected I/O error")

// SetFaults installs the fault plan of the simulation.
func (s *Sim) SetFaults(p *FaultPlan) {
	s.mu.Lock()
	s.faults = p
	s.mu.Unlock()
}

func plan() *FaultPlan {
	s := cur.Load()
	if s == nil {
		return nil
	}
	s.mu.Lock()
	defer s.mu.Unlock()
	return s.faults
}

// hit reports whether a rule for (op, path) fires now; for read/write rules it returns the rule so
// that the byte budget can be applied by the caller.
func (p *FaultPlan) hit(op, path string) *FileFault {
	if p == nil {
		return nil
	}
	p.mu.Lock()
	defer p.mu.Unlock()
	for _, r := range p.Rules {
		if r.Op != op || !strings.HasSuffix(path, r.PathSuffix) {
			continue
		}
		r.calls++
		if r.Nth == 0 || r.calls == r.Nth {
			return r
		}
	}
	return nil
}

func (p *FaultPlan) fired(kind string, path ...string) {
	p.mu.Lock()
	if p.Fired == nil {
		p.Fired = map[string]int{}
		p.Paths = map[string]int{}
	}
	p.Fired[kind]++
	for _, x := range path {
		p.Paths[x]++
	}
	p.mu.Unlock()
}

// FiredOn returns how many injected faults fired on paths with the given suffix.
func (p *FaultPlan) FiredOn(suffix string) int {
	if p == nil {
		return 0
	}
	p.mu.Lock()
	defer p.mu.Unlock()
	n := 0
	for x, v := range p.Paths {
		if strings.HasSuffix(x, suffix) {
			n += v
		}
	}
	return n
}

func (r *FileFault) err() error {
	if r.Err != nil {
		return r.Err
	}
	return ErrInjected
}

// File wraps *os.File; it is what the rewritten os.Open/OpenFile/Create return. The library only
// uses files through io.Reader / io.Writer / io.Closer and Stat.
type File struct {
	f        *os.File
	path     string
	read     int
	written  int
	writable bool
	rd, wr   *FileFault // byte-budget rules bound at open time
}

func wrap(f *os.File, path string) *File {
	fl := &File{f: f, path: path}
	if p := plan(); p != nil {
		p.mu.Lock()
		for _, r := range p.Rules {
			if !strings.HasSuffix(path, r.PathSuffix) {
				continue
			}
			r2 := r
			switch r.Op {
			case "read":
				r.calls++
				if r.Nth == 0 || r.calls == r.Nth {
					fl.rd = r2
				}
			case "write":
				// counted per open here; whether the file is writable is known to the caller
				r.calls++
				if r.Nth == 0 || r.calls == r.Nth {
					fl.wr = r2
				}
			}
		}
		p.mu.Unlock()
	}
	return fl
}

// OsOpen is os.Open.
func OsOpen(name string) (*File, error) {
	if r := plan().hit("open", name); r != nil {
		plan().fired("fs-open-error", name)
		return nil, &fs.PathError{Op: "open", Path: name, Err: r.err()}
	}
	f, err := os.Open(name)
	if err != nil {
		return nil, err
	}
	return wrap(f, name), nil
}

// OsOpenFile is os.OpenFile.
func OsOpenFile(name string, flag int, perm os.FileMode) (*File, error) {
	if r := plan().hit("open", name); r != nil {
		plan().fired("fs-open-error", name)
		return nil, &fs.PathError{Op: "open", Path: name, Err: r.err()}
	}
	if flag&(os.O_WRONLY|os.O_RDWR) != 0 {
		if r := plan().hit("open-write", name); r != nil {
			plan().fired("fs-open-for-writing-error", name)
			return nil, &fs.PathError{Op: "open", Path: name, Err: r.err()}
		}
	}
	f, err := os.OpenFile(name, flag, perm)
	if err != nil {
		return nil, err
	}
	fl := wrap(f, name)
	fl.writable = flag&(os.O_WRONLY|os.O_RDWR) != 0
	return fl, nil
}

// OsCreate is os.Create.
func OsCreate(name string) (*File, error) {
	return OsOpenFile(name, os.O_RDWR|os.O_CREATE|os.O_TRUNC, 0o666)
}

// OsStat is os.Stat.
func OsStat(name string) (os.FileInfo, error) {
	if r := plan().hit("stat", name); r != nil {
		plan().fired("fs-stat-error")
		return nil, &fs.PathError{Op: "stat", Path: name, Err: r.err()}
	}
	return os.Stat(name)
}

// OsReadDir is os.ReadDir.
func OsReadDir(name string) ([]os.DirEntry, error) {
	if r := plan().hit("readdir", name); r != nil {
		plan().fired("fs-readdir-error")
		return nil, &fs.PathError{Op: "readdir", Path: name, Err: r.err()}
	}
	return os.ReadDir(name)
}

// OsMkdirAll is os.MkdirAll.
func OsMkdirAll(path string, perm os.FileMode) error {
	if r := plan().hit("mkdir", path); r != nil {
		plan().fired("fs-mkdir-error")
		return &fs.PathError{Op: "mkdir", Path: path, Err: r.err()}
	}
	return os.MkdirAll(path, perm)
}

// Read delivers at most the remaining byte budget, then the injected error.
func (f *File) Read(p []byte) (int, error) {
	if f.rd != nil {
		Yield(-20, "file-read")
		left := f.rd.After - f.read
		if left <= 0 {
			plan().fired("fs-read-error", f.path)
			return 0, &fs.PathError{Op: "read", Path: f.path, Err: f.rd.err()}
		}
		if len(p) > left {
			p = p[:left]
		}
	}
	n, err := f.f.Read(p)
	f.read += n
	return n, err
}

// Write accepts at most the remaining byte budget (a short write), then fails: a full disk.
func (f *File) Write(p []byte) (int, error) {
	if f.wr != nil {
		Yield(-21, "file-write")
		left := f.wr.After - f.written
		if left < len(p) {
			if left < 0 {
				left = 0
			}
			n, _ := f.f.Write(p[:left])
			f.written += n
			plan().fired("fs-write-error", f.path)
			return n, &fs.PathError{Op: "write", Path: f.path, Err: f.wr.err()}
		}
	}
	n, err := f.f.Write(p)
	f.written += n
	return n, err
}

// Close closes the file; an injected close error is reported after the real close.
func (f *File) Close() error {
	err := f.f.Close()
	if !f.writable {
		return err // close faults are injected on files opened for writing only
	}
	if r := plan().hit("close", f.path); r != nil {
		plan().fired("fs-close-error", f.path)
		return &fs.PathError{Op: "close", Path: f.path, Err: r.err()}
	}
	return err
}

// Stat is (*os.File).Stat.
func (f *File) Stat() (os.FileInfo, error) { return f.f.Stat() }

// Name is (*os.File).Name.
func (f *File) Name() string { return f.f.Name() }

// TotalFired returns how many injected file faults have fired so far.
func (p *FaultPlan) TotalFired() int {
	if p == nil {
		return 0
	}
	p.mu.Lock()
	defer p.mu.Unlock()
	n := 0
	for _, v := range p.Fired {
		n += v
	}
	return n
}

// FiredKinds returns a copy of the per-kind counters.
func (p *FaultPlan) FiredKinds() map[string]int {
	m := map[string]int{}
	if p == nil {
		return m
	}
	p.mu.Lock()
	defer p.mu.Unlock()
	for k, v := range p.Fired {
		m[k] = v
	}
	return m
}
