module simrt

go 1.26
