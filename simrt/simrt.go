// Package simrt is the runtime of the controlled scheduler.
//
// The instrumenter (siminstr) rewrites a scratch copy of cinar/indicator so that every
// channel operation, close, go statement, WaitGroup wait, mutex operation, select, sleep and
// clock read goes through this package. While no simulation is active every entry point is a
// pass-through to the original operation, so the rewritten library behaves exactly like the
// original. While a simulation is active every goroutine started through Go is a *task*; a task
// parks before each synchronisation operation and the controller (Sim.Run) releases exactly one
// parked task at a time, whenever testing/synctest reports that every goroutine of the bubble is
// durably blocked. The choice of the released task is the only source of scheduling
// nondeterminism and comes from a Policy (seeded PRNG, fixed order, or an explicit replay list).
package simrt

import (
	"fmt"
	"iter"
	"runtime"
	"runtime/debug"
	"sort"
	"sync"
	"sync/atomic"
	"testing/synctest"
	"time"
)

// State of a task.
type State uint8

const (
	Running  State = iota // executing (or blocked inside a real operation)
	Parked                // waiting at a yield point; may be released by the controller
	Sleeping              // inside Sleep; may be released by the controller, which advances the clock
	LockWait              // waiting for a simulated lock held by another task
	Done                  // function returned (or panicked)
)

// Task is one goroutine under the control of the simulator.
type Task struct {
	ID      string // stable path id: parent id + "." + spawn index
	Kind    string // "lib" for goroutines started by library code, otherwise what the harness said
	Site    int    // site of the last yield
	Op      string // operation announced at the last yield
	Panic   any
	Stack   string
	release chan struct{}
	state   State
	wake    time.Duration
	lock    any
	nchild  int
	Prio    float64 // scratch for policies
	Seen    bool    // scratch for policies
	Starved bool    // scratch for policies
	counts  [2]int64
}

// State returns the task state (only meaningful at quiescence).
func (t *Task) State() State { return t.state }

// Policy picks the next task to release among the candidates (sorted by ID, never empty).
type Policy interface {
	Pick(s *Sim, cands []*Task) int
}

// Sim is one simulated execution.
type Sim struct {
	mu        sync.Mutex
	tasks     []*Task
	byGoid    map[int64]*Task
	holders   map[any]*Task
	Policy    Policy
	Steps     int
	MaxSteps  int
	Decisions []string // IDs of released tasks, in order
	Record    bool     // keep Decisions
	now       time.Duration
	Base      time.Time
	nroot     int
	seq       atomic.Int64
	faults    *FaultPlan

	// measurements
	ClosedRecv  map[int]int // single-value receives that found the channel closed, per site
	TimerFired  int         // sleeps ended by the controller
	TimerBusy   int         // ... while another task was runnable
	LockWaits   int
	StateHashes map[uint64]struct{} // optional: hashes of candidate multisets
	SchedHash   uint64              // running hash of the decision list
	NonFifo     int                 // decisions that differ from the lowest-id candidate
	Err         error
}

var cur atomic.Pointer[Sim]

// New returns a simulation with the given policy.
func New(p Policy) *Sim {
	return &Sim{
		Policy:     p,
		byGoid:     map[int64]*Task{},
		holders:    map[any]*Task{},
		ClosedRecv: map[int]int{},
		MaxSteps:   1 << 22,
		Base:       time.Date(2024, 6, 3, 12, 0, 0, 0, time.UTC),
		SchedHash:  1469598103934665603,
	}
}

// Activate makes s the active simulation. Must be called inside a synctest bubble.
func (s *Sim) Activate() { cur.Store(s) }

// Deactivate ends the simulation; instrumented code becomes pass-through again.
func Deactivate() { cur.Store(nil) }

// Active reports whether a simulation is active.
func Active() bool { return cur.Load() != nil }

// Seq returns the next global event sequence number (for harness histories).
func (s *Sim) Seq() int64 { return s.seq.Add(1) }

// Elapsed returns the simulated time elapsed.
func (s *Sim) Elapsed() time.Duration { s.mu.Lock(); defer s.mu.Unlock(); return s.now }

func goid() int64 {
	var buf [40]byte
	n := runtime.Stack(buf[:], false)
	// "goroutine 123 ["
	var id int64
	for i := 10; i < n; i++ {
		c := buf[i]
		if c < '0' || c > '9' {
			break
		}
		id = id*10 + int64(c-'0')
	}
	return id
}

func (s *Sim) self() *Task {
	g := goid()
	s.mu.Lock()
	t := s.byGoid[g]
	s.mu.Unlock()
	return t
}

// SpinLimit is the number of loop iterations the library may perform between two scheduling points
// (channel operation, lock, sleep, go statement, read or write of a simulated file or connection).
// The library's own loops are per element of a stream or of a small window and reach such a point
// every few iterations; when the limit is exceeded a goroutine is looping without ever blocking.
// The counter is one cheap global: under the controller one task runs at a time, and every yield
// of any task resets it, so only a loop that never yields can reach the limit.
const SpinLimit = 1_000_000

var loopTicks atomic.Int64

// Atomic passes the result of an atomic operation through and is a scheduling point: between two
// atomic operations of one task any other task may run (as on real hardware).
func Atomic[T any](site int, v T) T {
	Yield(site, "atomic")
	return v
}

// LoopTick is inserted by the instrumenter at the top of every for-loop body of the library.
func LoopTick() {
	if loopTicks.Add(1) <= SpinLimit {
		return
	}
	loopTicks.Store(0)
	if Self() != nil {
		panic(fmt.Sprintf("busy loop: more than %d loop iterations without reaching a blocking operation (the goroutine never gives up and never blocks: a hang)", SpinLimit))
	}
}

var freeCounts [2]atomic.Int64

// TaskCount increments and returns a counter private to the calling task (slot 0 or 1). Only the
// task itself touches it, so what it counts does not depend on how tasks overlap between yields.
// Outside a controlled simulation there is one counter per slot for everybody.
func TaskCount(slot int) int64 {
	if t := Self(); t != nil {
		t.counts[slot]++
		return t.counts[slot]
	}
	return freeCounts[slot].Add(1)
}

// Self returns the current task, or nil.
func Self() *Task {
	s := cur.Load()
	if s == nil {
		return nil
	}
	return s.self()
}

// Go starts f as a task (or as a plain goroutine when no simulation is active).
func Go(f func()) { GoKind("lib", f) }

// GoKind is Go with an explicit kind; the harness uses it for its own producer, consumer and
// client tasks.
func GoKind(kind string, f func()) *Task {
	s := cur.Load()
	if s == nil {
		go f()
		return nil
	}
	parent := s.self()
	s.mu.Lock()
	var id string
	if parent == nil {
		id = fmt.Sprintf("r%03d", s.nroot)
		s.nroot++
	} else {
		id = fmt.Sprintf("%s.%03d", parent.ID, parent.nchild)
		parent.nchild++
	}
	t := &Task{ID: id, Kind: kind, release: make(chan struct{})}
	s.tasks = append(s.tasks, t)
	s.mu.Unlock()
	go func() {
		g := goid()
		s.mu.Lock()
		s.byGoid[g] = t
		s.mu.Unlock()
		defer func() {
			if r := recover(); r != nil {
				t.Panic = r
				t.Stack = string(debug.Stack())
			}
			s.mu.Lock()
			t.state = Done
			delete(s.byGoid, g)
			s.mu.Unlock()
		}()
		s.park(t, 0, "start")
		f()
	}()
	if kind == "lib" && parent != nil {
		// a go statement is a scheduling point for the spawning goroutine too: on another processor
		// the new goroutine may run before the statement after the go is executed
		Yield(-40, "after-go")
	}
	return t
}

func (s *Sim) park(t *Task, site int, op string) {
	s.mu.Lock()
	loopTicks.Store(0)
	t.state = Parked
	t.Site = site
	t.Op = op
	s.mu.Unlock()
	<-t.release
}

// Yield parks the calling task until the controller releases it.
func Yield(site int, op string) {
	s := cur.Load()
	if s == nil {
		return
	}
	t := s.self()
	if t == nil {
		return
	}
	s.park(t, site, op)
}

// Recv is `<-ch`.
func Recv[T any](site int, ch <-chan T) T {
	Yield(site, "recv")
	v, ok := <-ch
	if !ok {
		if s := cur.Load(); s != nil {
			s.mu.Lock()
			s.ClosedRecv[site]++
			s.mu.Unlock()
		}
	}
	return v
}

// Recv2 is `v, ok := <-ch`.
func Recv2[T any](site int, ch <-chan T) (T, bool) {
	Yield(site, "recv")
	v, ok := <-ch
	return v, ok
}

// Close is `close(ch)`.
func Close[T any](site int, ch chan<- T) {
	Yield(site, "close")
	close(ch)
}

// Chan is `range ch`.
func Chan[T any](site int, ch <-chan T) iter.Seq[T] {
	return func(yield func(T) bool) {
		for {
			Yield(site, "range")
			v, ok := <-ch
			if !ok || !yield(v) {
				return
			}
		}
	}
}

// Lock is `l.Lock()` with a simulated ownership table, so that a task waiting for a lock whose
// holder is parked is modelled as blocked instead of blocking the whole simulator.
func Lock(site int, l sync.Locker) { lockImpl(site, l, l.Lock) }

// Unlock is `l.Unlock()`.
func Unlock(site int, l sync.Locker) { unlockImpl(site, l, l.Unlock) }

// RLock is `rw.RLock()`; readers are serialised like writers (conservative).
func RLock(site int, rw *sync.RWMutex) { lockImpl(site, rw, rw.RLock) }

// RUnlock is `rw.RUnlock()`.
func RUnlock(site int, rw *sync.RWMutex) { unlockImpl(site, rw, rw.RUnlock) }

// Wait is `wg.Wait()`.
func Wait(site int, wg *sync.WaitGroup) {
	Yield(site, "wait")
	wg.Wait()
}

func lockImpl(site int, key any, lock func()) {
	s := cur.Load()
	var t *Task
	if s != nil {
		t = s.self()
	}
	if t == nil {
		lock()
		return
	}
	s.park(t, site, "lock")
	for {
		s.mu.Lock()
		if s.holders[key] == nil {
			s.holders[key] = t
			s.mu.Unlock()
			lock()
			return
		}
		s.LockWaits++
		t.state = LockWait
		t.lock = key
		t.Site = site
		t.Op = "lockwait"
		s.mu.Unlock()
		<-t.release
	}
}

func unlockImpl(site int, key any, unlock func()) {
	s := cur.Load()
	var t *Task
	if s != nil {
		t = s.self()
	}
	if t == nil {
		unlock()
		return
	}
	s.mu.Lock()
	delete(s.holders, key)
	for _, w := range s.tasks {
		if w.state == LockWait && w.lock == key {
			w.state = Parked
			w.lock = nil
		}
	}
	s.mu.Unlock()
	unlock()
}

// Sleep is time.Sleep on the simulated clock.
func Sleep(site int, d time.Duration) {
	s := cur.Load()
	var t *Task
	if s != nil {
		t = s.self()
	}
	if t == nil {
		time.Sleep(d)
		return
	}
	s.mu.Lock()
	t.state = Sleeping
	t.wake = s.now + d
	t.Site = site
	t.Op = "sleep"
	s.mu.Unlock()
	<-t.release
}

// Now is time.Now on the simulated clock.
func Now() time.Time {
	s := cur.Load()
	if s == nil {
		return time.Now()
	}
	s.mu.Lock()
	defer s.mu.Unlock()
	return s.Base.Add(s.now)
}

func lessID(a, b string) bool { return a < b }

// Candidates returns the tasks the controller may release, sorted by ID.
func (s *Sim) candidates() []*Task {
	var c []*Task
	for _, t := range s.tasks {
		if t.state == Parked || t.state == Sleeping {
			c = append(c, t)
		}
	}
	sort.Slice(c, func(i, j int) bool { return lessID(c[i].ID, c[j].ID) })
	return c
}

// IsSleeping reports whether the candidate is waiting for a timer.
func (t *Task) IsSleeping() bool { return t.state == Sleeping }

// Run drives the simulation until no task can be released. It may be called repeatedly; between
// calls the harness may open gates, feed inputs or inspect state.
func (s *Sim) Run() error {
	if cur.Load() != s {
		// Free-running mode (race-detector companion): nothing is controlled; wait for real
		// quiescence, let every pending (fake-clock) timer fire, wait again.
		synctest.Wait()
		time.Sleep(24 * time.Hour)
		synctest.Wait()
		return nil
	}
	for {
		synctest.Wait()
		s.mu.Lock()
		cands := s.candidates()
		s.mu.Unlock()
		if len(cands) == 0 {
			return nil
		}
		if s.StateHashes != nil {
			h := uint64(1469598103934665603)
			for _, c := range cands {
				h = (h ^ uint64(c.Site)*31 ^ uint64(len(c.Op))) * 1099511628211
			}
			s.StateHashes[h] = struct{}{}
		}
		k := s.Policy.Pick(s, cands)
		if k < 0 || k >= len(cands) {
			s.Err = fmt.Errorf("policy returned %d of %d candidates (replay diverged)", k, len(cands))
			return s.Err
		}
		p := cands[k]
		// first non-sleeping candidate is the FIFO choice
		fifo := 0
		for i, c := range cands {
			if c.state != Sleeping {
				fifo = i
				break
			}
		}
		if k != fifo {
			s.NonFifo++
		}
		var delta time.Duration
		s.mu.Lock()
		if p.state == Sleeping {
			s.TimerFired++
			for _, c := range cands {
				if c.state == Parked {
					s.TimerBusy++
					break
				}
			}
			if p.wake > s.now {
				delta = p.wake - s.now
				s.now = p.wake
			}
		}
		p.state = Running
		s.Steps++
		s.mu.Unlock()
		if delta > 0 {
			// The bubble's own (fake) clock follows the simulated one: timers the library creates
			// itself (time.After, time.NewTimer, context deadlines) that fall due within the jump
			// fire now, in time order, and their goroutines run up to their next yield.
			time.Sleep(delta)
			synctest.Wait()
		}
		for i := 0; i < len(p.ID); i++ {
			s.SchedHash = (s.SchedHash ^ uint64(p.ID[i])) * 1099511628211
		}
		s.SchedHash = (s.SchedHash ^ 0xff) * 1099511628211
		if s.Record {
			s.Decisions = append(s.Decisions, p.ID)
		}
		if s.Steps > s.MaxSteps {
			s.Err = fmt.Errorf("step budget %d exceeded", s.MaxSteps)
			return s.Err
		}
		p.release <- struct{}{}
	}
}

// Tasks returns all tasks created so far.
func (s *Sim) Tasks() []*Task { return s.tasks }

// Stuck returns the tasks that have not finished. After Run returned nil these are blocked
// forever in a real operation (or waiting for a lock nobody will release).
func (s *Sim) Stuck() []*Task {
	s.mu.Lock()
	defer s.mu.Unlock()
	var r []*Task
	for _, t := range s.tasks {
		if t.state != Done {
			r = append(r, t)
		}
	}
	return r
}

// Panics returns the tasks that panicked.
func (s *Sim) Panics() []*Task {
	s.mu.Lock()
	defer s.mu.Unlock()
	var r []*Task
	for _, t := range s.tasks {
		if t.Panic != nil {
			r = append(r, t)
		}
	}
	return r
}
