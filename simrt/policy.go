package simrt

import (
	"math/rand"
)

// PolicySpec is the serialisable description of a scheduling policy. Every random choice of a
// policy comes from a PRNG seeded with Seed, so (spec, program) determines the schedule.
type PolicySpec struct {
	Name   string   `json:"name"`             // fifo lifo random pct starve prod cons lib stick replay
	Seed   int64    `json:"seed,omitempty"`   //
	D      int      `json:"d,omitempty"`      // pct: number of priority change points
	Horiz  int      `json:"horiz,omitempty"`  // pct: step horizon over which change points are drawn
	P      float64  `json:"p,omitempty"`      // starve: probability that a task is in the starved set; stick: switch probability
	Timer  float64  `json:"timer,omitempty"`  // probability weight of firing a timer while other tasks are runnable
	Forced []string `json:"forced,omitempty"` // replay: decisions to force (then Then)
	Strict bool     `json:"strict,omitempty"` // replay: a forced decision that is not a candidate is an error
	Then   string   `json:"then,omitempty"`   // replay: policy after the forced prefix (default fifo)
}

// NewPolicy builds the policy described by spec.
func NewPolicy(spec PolicySpec) Policy {
	rng := rand.New(rand.NewSource(spec.Seed))
	switch spec.Name {
	case "", "fifo":
		return &fifo{}
	case "lifo":
		return &lifo{}
	case "random":
		return &random{rng: rng, timer: spec.Timer}
	case "pct":
		p := &pct{rng: rng, timer: spec.Timer}
		h := spec.Horiz
		if h <= 0 {
			h = 2000
		}
		p.change = map[int]bool{}
		for i := 0; i < spec.D; i++ {
			p.change[rng.Intn(h)] = true
		}
		return p
	case "starve":
		return &starve{rng: rng, p: spec.P, timer: spec.Timer}
	case "prod", "cons", "lib", "client":
		return &prefer{rng: rng, kind: spec.Name, timer: spec.Timer}
	case "stick":
		return &stick{rng: rng, p: spec.P, timer: spec.Timer}
	case "replay":
		then := spec.Then
		if then == "" {
			then = "fifo"
		}
		return &replay{forced: spec.Forced, strict: spec.Strict, then: NewPolicy(PolicySpec{Name: then, Seed: spec.Seed, Timer: spec.Timer, P: spec.P, D: spec.D, Horiz: spec.Horiz})}
	}
	panic("simrt: unknown policy " + spec.Name)
}

// runnable returns the indices of non-sleeping candidates; if there is none, or with probability
// timer when there are sleepers, it returns the sleepers instead.
func pool(rng *rand.Rand, cands []*Task, timer float64) []int {
	var run, sleep []int
	for i, c := range cands {
		if c.IsSleeping() {
			sleep = append(sleep, i)
		} else {
			run = append(run, i)
		}
	}
	if len(run) == 0 {
		return sleep
	}
	if len(sleep) > 0 && rng != nil && timer > 0 && rng.Float64() < timer {
		return sleep
	}
	return run
}

type fifo struct{}

func (*fifo) Pick(_ *Sim, c []*Task) int { return pool(nil, c, 0)[0] }

type lifo struct{}

func (*lifo) Pick(_ *Sim, c []*Task) int { p := pool(nil, c, 0); return p[len(p)-1] }

type random struct {
	rng   *rand.Rand
	timer float64
}

func (r *random) Pick(_ *Sim, c []*Task) int {
	p := pool(r.rng, c, r.timer)
	return p[r.rng.Intn(len(p))]
}

// pct: random priorities, highest runs; at d drawn steps the running task drops to the bottom.
type pct struct {
	rng    *rand.Rand
	timer  float64
	change map[int]bool
	low    float64
}

func (p *pct) Pick(s *Sim, c []*Task) int {
	for _, t := range c {
		if !t.Seen {
			t.Seen = true
			t.Prio = 1 + p.rng.Float64()
		}
	}
	pl := pool(p.rng, c, p.timer)
	best := pl[0]
	for _, i := range pl {
		if c[i].Prio > c[best].Prio {
			best = i
		}
	}
	if p.change[s.Steps] {
		p.low -= 1
		c[best].Prio = p.low
	}
	return best
}

// starve: a random subset of tasks runs only when nothing else can.
type starve struct {
	rng   *rand.Rand
	p     float64
	timer float64
}

func (st *starve) Pick(_ *Sim, c []*Task) int {
	for _, t := range c {
		if !t.Seen {
			t.Seen = true
			t.Starved = st.rng.Float64() < st.p
		}
	}
	pl := pool(st.rng, c, st.timer)
	var ok []int
	for _, i := range pl {
		if !c[i].Starved {
			ok = append(ok, i)
		}
	}
	if len(ok) == 0 {
		ok = pl
	}
	return ok[st.rng.Intn(len(ok))]
}

// prefer: tasks of one kind run first (producer-eager, consumer-eager, library-eager).
type prefer struct {
	rng   *rand.Rand
	kind  string
	timer float64
}

func (pr *prefer) Pick(_ *Sim, c []*Task) int {
	pl := pool(pr.rng, c, pr.timer)
	var ok []int
	for _, i := range pl {
		if c[i].Kind == pr.kind {
			ok = append(ok, i)
		}
	}
	if len(ok) == 0 {
		ok = pl
	}
	return ok[pr.rng.Intn(len(ok))]
}

// stick: keep releasing the same task while it stays runnable (long bursts fill buffers),
// switching with probability p.
type stick struct {
	rng   *rand.Rand
	p     float64
	timer float64
	last  string
}

func (st *stick) Pick(_ *Sim, c []*Task) int {
	pl := pool(st.rng, c, st.timer)
	if st.rng.Float64() >= st.p {
		for _, i := range pl {
			if c[i].ID == st.last {
				return i
			}
		}
	}
	k := pl[st.rng.Intn(len(pl))]
	st.last = c[k].ID
	return k
}

// replay forces an explicit decision list, then continues with another policy.
type replay struct {
	forced []string
	strict bool
	then   Policy
	pos    int
}

func (r *replay) Pick(s *Sim, c []*Task) int {
	for r.pos < len(r.forced) {
		want := r.forced[r.pos]
		r.pos++
		if want == "" { // "" = take the default choice at this step
			return r.then.Pick(s, c)
		}
		for i, t := range c {
			if t.ID == want {
				return i
			}
		}
		if r.strict {
			return -1
		}
		return r.then.Pick(s, c)
	}
	return r.then.Pick(s, c)
}
