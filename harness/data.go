package harness

import (
	"math"
	"math/rand"
	"time"

	"github.com/cinar/indicator/v2/asset"
)

// Shapes of generated OHLCV series.
const (
	ShapeWalk = iota
	ShapeFlat
	ShapeUp
	ShapeDown
	ShapeSaw
	ShapeTies
	ShapeTiny
	ShapeHuge
	ShapeSpiky
	ShapeHalts // a random walk with halted sessions: open = high = low = close (the previous close), zero volume
	ShapeSteps // a random walk rounded to a few integer levels: exact repeats of earlier closes while still moving
	ShapeMicro // prices that move by a few millionths per bar: outcomes and indicator values that differ far below 0.01
	NumShapes
	// ShapeGlitch is outside the generally drawn shapes (prices are not positive): a random walk
	// with data glitches - bars whose prices and volume are all 0. Only C05 draws it: its oracle
	// (count, alphabet, Hold through the warm-up) is indifferent to the NaN/Inf values that follow.
	ShapeGlitch = NumShapes
	// ShapeLateStart (also outside the generally drawn shapes): the first one to three bars have no
	// quote yet (all zero), then a random walk. Drawn by C04, C05 and C13.
	ShapeLateStart = NumShapes + 1
	// ShapeNaNBar (outside the generally drawn shapes): a random walk with one bar whose prices are
	// not-a-number (a quote that failed to parse upstream). Drawn by C04.
	ShapeNaNBar = NumShapes + 2
	// ShapeCloseOnly (outside the generally drawn shapes): a random walk in which one bar in seven
	// carries a close and a volume but no open, high or low (zero): the "close only" rows at the
	// start of many price histories. Drawn by C05 and C14.
	ShapeCloseOnly = NumShapes + 3
)

var shapeNames = []string{"walk", "flat", "up", "down", "saw", "ties", "tiny", "huge", "spiky", "halts", "steps", "micro", "glitch"}

// genSnapshots returns n snapshots of the given shape with low <= open, close <= high, positive
// prices, non-negative volume and consecutive whole-day UTC dates starting at start.
func genSnapshots(n int, shape int, seed int64, start time.Time) []*asset.Snapshot {
	rng := rand.New(rand.NewSource(seed*7919 + int64(shape)))
	out := make([]*asset.Snapshot, n)
	price := 50 + 50*rng.Float64()
	scale := 1.0
	switch shape {
	case ShapeTiny:
		scale = 1e-6
	case ShapeHuge:
		scale = 1e9
	}
	for i := 0; i < n; i++ {
		switch shape {
		case ShapeWalk, ShapeTiny, ShapeHuge, ShapeHalts, ShapeGlitch, ShapeSteps, ShapeLateStart, ShapeNaNBar, ShapeCloseOnly:
			price *= 1 + 0.04*(rng.Float64()-0.5)
		case ShapeFlat:
		case ShapeMicro:
			price *= 1 + 4e-6*(rng.Float64()-0.4)
		case ShapeUp:
			price *= 1.01
		case ShapeDown:
			price *= 0.99
		case ShapeSaw:
			if (i/3)%2 == 0 {
				price *= 1.03
			} else {
				price *= 0.97
			}
		case ShapeTies:
			price = float64(40 + (i*i)%5)
		case ShapeSpiky:
			price *= 1 + 0.02*(rng.Float64()-0.5)
			if rng.Intn(7) == 0 {
				price *= 1 + 0.5*(rng.Float64()-0.4)
			}
		}
		if price < 1 {
			price = 1
		}
		c := price
		o := c
		h := c
		l := c
		vol := 1000.0
		if shape == ShapeMicro {
			vol = float64(500 + rng.Intn(500))
		} else if shape != ShapeFlat && shape != ShapeTies {
			o = c * (1 + 0.01*(rng.Float64()-0.5))
			h = math.Max(o, c) * (1 + 0.01*rng.Float64())
			l = math.Min(o, c) * (1 - 0.01*rng.Float64())
			vol = float64(500 + rng.Intn(5000))
			if rng.Intn(9) == 0 {
				vol = 0
			}
		} else if shape == ShapeTies {
			vol = float64(100 * (1 + i%3))
		}
		if shape == ShapeSteps {
			// closes on the integer levels 10..15: purchase prices, previous closes and thresholds
			// are hit exactly again and again
			lvl := float64(10 + rng.Intn(6))
			c = lvl
			o = float64(10 + rng.Intn(6))
			h = math.Max(o, c) + float64(rng.Intn(2))
			l = math.Min(o, c) - float64(rng.Intn(2))
			vol = float64(100 * (1 + rng.Intn(4)))
		}
		if shape == ShapeHalts && i > 0 && rng.Intn(6) == 0 {
			price = out[i-1].Close / scale
			c, o, h, l, vol = price, price, price, price, 0
		}
		if shape == ShapeGlitch && rng.Intn(7) == 0 {
			c, o, h, l, vol = 0, 0, 0, 0, 0
		}
		if shape == ShapeLateStart && i <= int(seed%3) {
			c, o, h, l, vol = 0, 0, 0, 0, 0
		}
		if shape == ShapeCloseOnly && rng.Intn(7) == 0 {
			o, h, l = 0, 0, 0
		}
		if shape == ShapeNaNBar && n > 0 && i == int(seed%int64(n)) {
			c, o, h, l = math.NaN(), math.NaN(), math.NaN(), math.NaN()
		}
		out[i] = &asset.Snapshot{
			Date:   start.AddDate(0, 0, i),
			Open:   o * scale,
			High:   h * scale,
			Low:    l * scale,
			Close:  c * scale,
			Volume: vol,
		}
	}
	return out
}

var epoch = time.Date(2020, 1, 6, 0, 0, 0, 0, time.UTC)

// columns extracts the k-th standard column set used to feed float indicators:
// by the number of inputs an indicator has we feed (in its parameter order) what it documents.
func column(snaps []*asset.Snapshot, which byte) []float64 {
	r := make([]float64, len(snaps))
	for i, s := range snaps {
		switch which {
		case 'o':
			r[i] = s.Open
		case 'h':
			r[i] = s.High
		case 'l':
			r[i] = s.Low
		case 'c':
			r[i] = s.Close
		case 'v':
			r[i] = s.Volume
		case 'x':
			r[i] = float64(i + 1)
		}
	}
	return r
}

// floatInputs builds the input vectors of an indicator with the given column signature and
// per-input lengths (lens may differ between inputs).
func floatInputs(sig string, lens []int, shape int, seed int64) [][]float64 {
	maxn := 0
	for _, n := range lens {
		maxn = max(maxn, n)
	}
	snaps := genSnapshots(maxn, shape, seed, epoch)
	in := make([][]float64, len(sig))
	for i := range sig {
		in[i] = column(snaps, sig[i])[:lens[i]]
	}
	return in
}
