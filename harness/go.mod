module harness

go 1.26

require (
	github.com/cinar/indicator/v2 v2.0.0
	simrt v0.0.0
)

replace github.com/cinar/indicator/v2 => REPO_COPY

replace simrt => SIMRT_DIR
