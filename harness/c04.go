package harness

import (
	"fmt"
	"math"
	"math/rand"

	"github.com/cinar/indicator/v2/asset"
	"github.com/cinar/indicator/v2/strategy"
	"simrt"
)

// C04: no look-ahead - output i depends only on inputs up to i.
//
// Run A (stalled producer): positions are fed one at a time; after each one the controller runs
// everything except the producers to quiescence and the harness records how many values every
// consumer holds. An output value that was physically delivered before input m existed cannot
// depend on inputs >= m - for every possible suffix at once.
// Run B (differential, for the positions where A is not prompt, plus a sample of the others):
// end-of-stream at m versus the whole series, and the whole series versus one that shares
// s[0:m] and continues differently.
type c04 struct{}

func init() { register(c04{}) }

func (c04) ID() string { return "C04" }

func (c04) Rule() string {
	return "case = (indicator or strategy incl. compound/decorated, configuration, series of n positions, capacity, scheduling policy+seed, cut points); " +
		"run A stalls the producers after every position (n+1 quiescent observations per case), run B compares EOF-at-m and altered-suffix runs with the full run; " +
		"a cell (family, entity, configuration class, verdict class: all-prompt / late-positions-compared, policy) is counted as non-trivial when n exceeds the warm-up (so that at least one computed value is subject to the oracle); distinct_nontrivial counts distinct cells"
}

func (c04) Components() (real, stub []string) {
	r, s := c03{}.Components()
	return r, append(s, "producer gate: the controller stalls all producers after position m and detects quiescence of everything else")
}

func (c04) Gen(rng *rand.Rand, tier string, k int) *Case {
	var c *Case
	if rng.Intn(2) == 0 {
		c = genIndCase(rng, tier, true)
		ii := c.ind()
		n := ii.Idle + 1 + rng.Intn(ii.Idle+8)
		if n > 70 {
			n = 70
		}
		if ii.Idle >= 70 {
			n = min(ii.Idle+3, 110)
		}
		for i := range c.Lens {
			c.Lens[i] = n
		}
	} else {
		c = genStratCase(rng, tier)
		S := max(0, measureWarmup(c))
		n := S + 1 + rng.Intn(S+8)
		if rng.Intn(3) == 0 {
			n = S + 10 + rng.Intn(40) // long enough for a strategy to buy and sell a few times
		}
		if n > 70 {
			n = 70
		}
		if S >= 70 {
			n = min(S+3, 110)
		}
		c.Lens[0] = n
		if rng.Intn(12) == 0 {
			c.Shape = ShapeLateStart // the series opens with bars that have no quote yet
		}
	}
	if rng.Intn(12) == 0 {
		c.Shape = ShapeNaNBar // one bar without a number: whatever it does to later values, it must not pull later inputs into earlier ones
	}
	if rng.Intn(10) == 0 {
		c.Variant = 3 // every non-period parameter zero: causality must not depend on them
	}
	c.Mode = fmt.Sprintf("%d", rng.Int63n(1<<30)) // seed of cut points and suffixes
	return c
}

func (c04) Shrinks(c *Case) []*Case {
	var out []*Case
	for _, d := range pipeShrinks(c) {
		if equalInts(d.Lens) {
			out = append(out, d)
		}
	}
	return out
}

func bitsEq(a, b float64) bool {
	return math.Float64bits(a) == math.Float64bits(b) || (math.IsNaN(a) && math.IsNaN(b))
}

func (c04) Run(c *Case, st *Stats) []Violation {
	var seed int64
	fmt.Sscanf(c.Mode, "%d", &seed)
	rng := rand.New(rand.NewSource(seed))
	n := c.Lens[0]
	var vs []Violation
	var entity string
	add := func(kind, detail string, dec []string) {
		vs = append(vs, Violation{Prop: "C04", Entity: entity, Kind: kind, Regime: "-", Detail: detail, Decisions: dec})
	}
	// runner abstracts over the two families: run(series, stepfeed, policy, cap) -> outputs as float64
	type outcome struct {
		outs   [][]float64
		avail  [][]int
		ok     bool
		sim    *SimOut
		closed bool
	}
	var run func(snaps []*asset.Snapshot, step bool, pol simrt.PolicySpec, cap int, rec bool) outcome
	var idle []int // warm-up per output
	cfgClass := "default"
	if len(c.Cfg) > 0 {
		cfgClass = fmt.Sprint(c.Cfg)
	} else if c.Scale > 1 {
		cfgClass = fmt.Sprintf("scaled/%d", c.Scale)
	}
	switch c.Family {
	case "ind":
		e := indByName[c.Entity]
		entity = c.Entity
		ii := c.ind()
		idle = make([]int, e.NOut)
		for j := range idle {
			idle[j] = ii.Idle
		}
		run = func(snaps []*asset.Snapshot, step bool, pol simrt.PolicySpec, cap int, rec bool) outcome {
			in := make([][]F, len(e.Sig))
			for i := range e.Sig {
				in[i] = column(snaps, e.Sig[i])
			}
			r := runPipe(PipeOpts{SimOpts: SimOpts{Policy: pol, Record: rec, MaxSteps: 3_000_000}, Cap: cap, StepFeed: step, EarlyFeed: c.Early}, in,
				func(in []<-chan F) []<-chan F { return c.ind().Build()(in) })
			ok, _, _ := termination(&r.SimOut, r.Closed, r.ProdDone, r.Built)
			return outcome{outs: r.Outs, avail: r.Avail, ok: ok && r.Err == nil, sim: &r.SimOut}
		}
	case "strat":
		entity = specName(c.spec())
		idle = []int{0}
		run = func(snaps []*asset.Snapshot, step bool, pol simrt.PolicySpec, cap int, rec bool) outcome {
			r := runPipe(PipeOpts{SimOpts: SimOpts{Policy: pol, Record: rec, MaxSteps: 3_000_000}, Cap: cap, StepFeed: step, EarlyFeed: c.Early}, [][]*asset.Snapshot{snaps},
				func(in []<-chan *asset.Snapshot) []<-chan strategy.Action {
					return []<-chan strategy.Action{c.strat().Compute(in[0])}
				})
			ok, _, _ := termination(&r.SimOut, r.Closed, r.ProdDone, r.Built)
			outs := make([][]float64, len(r.Outs))
			for j := range r.Outs {
				for _, a := range r.Outs[j] {
					outs[j] = append(outs[j], float64(a))
				}
			}
			return outcome{outs: outs, avail: r.Avail, ok: ok && r.Err == nil, sim: &r.SimOut}
		}
	}
	series := genSnapshots(n, c.Shape, c.DataSeed, epoch)
	desc := fmt.Sprintf("%s cfg=%v scale=%d n=%d cap=%d policy=%s: ", entity, c.Cfg, c.Scale, n, c.Cap, c.Policy.Name)

	// ---- Run A
	a := run(series, true, c.Policy, c.Cap, c.Record)
	st.noteSim(a.sim)
	st.Faults["producer-stalled-quiescence-observations"] += len(a.avail)
	if !a.ok {
		st.Skipped["not-evaluated:run-did-not-terminate(C03)"]++
		return nil
	}
	final := make([]int, len(a.outs))
	for j := range a.outs {
		final[j] = len(a.outs[j])
	}
	need := func(j, m int) int { return min(final[j], max(0, m-idle[j])) }
	var late []int
	for m := 1; m <= n && m < len(a.avail); m++ {
		for j := range final {
			if a.avail[m][j] < need(j, m) {
				late = append(late, m)
				break
			}
		}
	}
	verdict := "all-prompt"
	if len(late) > 0 {
		verdict = "late-positions-compared"
		st.Probes["cases-with-late-positions"]++
	} else {
		st.Probes["cases-proved-by-causality"]++
	}
	computed := false
	for j := range final {
		if final[j] > 0 && n > idle[j] {
			computed = true
		}
	}
	if computed {
		st.cell(c.Family, entity, cfgClass, verdict, c.Policy.Name)
	}
	// ---- Run E: the same series with what fits into the input channels queued before the pipeline
	// is built. Run A has shown what each value is when nothing beyond its position exists yet;
	// a value that changes (or goes missing) once later inputs are already waiting depends on them.
	if c.Early && c.Cap > 0 {
		e := run(series, false, c.Policy, c.Cap, false)
		st.noteSim(e.sim)
		st.Faults["later-inputs-already-queued-when-built"]++
		if e.ok {
		cmp:
			for j := range final {
				if len(e.outs[j]) != len(a.outs[j]) {
					add("depends-on-future", desc+fmt.Sprintf("output %d has %d values when the inputs are queued before the pipeline is built, %d when each position is fed on its own", j, len(e.outs[j]), len(a.outs[j])), a.sim.Decisions)
					break
				}
				for i := range e.outs[j] {
					if !bitsEq(e.outs[j][i], a.outs[j][i]) {
						add("depends-on-future", desc+fmt.Sprintf("output %d index %d (input position %d) is %v when later inputs are already queued at build time and %v when each position is fed on its own", j, i, i+idle[j], e.outs[j][i], a.outs[j][i]), a.sim.Decisions)
						break cmp
					}
				}
			}
			st.Probes["queued-input-runs-compared"]++
		}
	}
	// ---- Run B: cut points
	var cuts []int
	if len(late) > 0 && len(late) <= 24 {
		cuts = append(cuts, late...) // every position that was not delivered promptly gets both differential runs
	} else if len(late) > 0 {
		cuts = append(cuts, late[0], late[len(late)-1])
		for i := 0; i < 8; i++ {
			cuts = append(cuts, late[rng.Intn(len(late))])
		}
	}
	if len(late) == 0 && rng.Intn(10) == 0 && n > 0 {
		cuts = append(cuts, 1+rng.Intn(n))
	}
	if rng.Intn(4) == 0 && n > 1 {
		// a cut inside the warm-up: the prefix run is entitled to nothing there
		w := max(1, min(idle[0], n-1))
		cuts = append(cuts, 1+rng.Intn(w))
	}
	seen := map[int]bool{}
	for _, m := range cuts {
		if seen[m] || m > n {
			continue
		}
		seen[m] = true
		// B1: end of stream at m
		p := run(series[:m], false, simrt.PolicySpec{Name: "fifo"}, 0, false)
		st.noteSim(p.sim)
		st.Faults["eof-at-cut-point"]++
		if p.ok {
			for j := range final {
				k := need(j, m)
				if len(p.outs[j]) < k {
					add("needs-future-input", desc+fmt.Sprintf("output %d: the run on the prefix of %d positions yields %d values, the full run has %d values for those positions (warm-up %d)", j, m, len(p.outs[j]), k, idle[j]), a.sim.Decisions)
					break
				}
				for i := 0; i < k; i++ {
					if !bitsEq(p.outs[j][i], a.outs[j][i]) {
						add("depends-on-future", desc+fmt.Sprintf("output %d index %d (input position %d) is %v on the prefix of %d positions and %v on the full series", j, i, i+idle[j], p.outs[j][i], m, a.outs[j][i]), a.sim.Decisions)
						break
					}
				}
				// "exactly the corresponding prefix": whatever else the prefix run emits must also be
				// the full run's value at that index (nothing is invented at the end of the input)
				for i := k; i < len(p.outs[j]); i++ {
					if i >= len(a.outs[j]) {
						if m < n {
							add("prefix-run-not-a-prefix", desc+fmt.Sprintf("output %d: the run on the prefix of %d positions yields %d values, the full run on %d positions only %d", j, m, len(p.outs[j]), n, len(a.outs[j])), a.sim.Decisions)
						}
						break
					}
					if !bitsEq(p.outs[j][i], a.outs[j][i]) {
						add("prefix-run-not-a-prefix", desc+fmt.Sprintf("output %d index %d is %v on the prefix of %d positions (which is entitled to %d values) and %v on the full series", j, i, p.outs[j][i], m, k, a.outs[j][i]), a.sim.Decisions)
						break
					}
				}
			}
			st.Probes["prefix-runs-compared"]++
		}
		// B2: same prefix, different suffix
		if m < n {
			alt := genSnapshots(n, (c.Shape+1+rng.Intn(NumShapes-1))%NumShapes, c.DataSeed+1+rng.Int63n(1000), epoch)
			mixed := append(append([]*asset.Snapshot{}, series[:m]...), alt[m:]...)
			if rng.Intn(2) == 0 { // level shift / spike instead of a different walk
				f := []float64{3, 0.3, 10}[rng.Intn(3)]
				mixed = append([]*asset.Snapshot{}, series[:m]...)
				for _, s := range series[m:] {
					t := *s
					t.Open, t.High, t.Low, t.Close, t.Volume = t.Open*f, t.High*f, t.Low*f, t.Close*f, t.Volume*f+1
					mixed = append(mixed, &t)
				}
			}
			q := run(mixed, false, simrt.PolicySpec{Name: "fifo"}, 0, false)
			st.noteSim(q.sim)
			st.Faults["suffix-altered-after-cut-point"]++
			if q.ok {
				for j := range final {
					k := need(j, m)
					if len(q.outs[j]) < k {
						add("needs-future-input", desc+fmt.Sprintf("output %d: altered-suffix run has %d values, expected at least %d", j, len(q.outs[j]), k), a.sim.Decisions)
						break
					}
					for i := 0; i < k; i++ {
						if !bitsEq(q.outs[j][i], a.outs[j][i]) {
							add("depends-on-future", desc+fmt.Sprintf("output %d index %d (input position %d < cut %d) changes from %v to %v when only positions >= %d are altered", j, i, i+idle[j], m, a.outs[j][i], q.outs[j][i], m), a.sim.Decisions)
							break
						}
					}
				}
				st.Probes["suffix-runs-compared"]++
			}
		}
	}
	return vs
}
