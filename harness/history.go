package harness

import (
	"bufio"
	"bytes"
	"encoding/json"
	"fmt"
	"math"
	"math/rand"
	"os"
	"os/exec"
	"path/filepath"
	"reflect"
	"sort"
	"strings"
	"time"
	"unsafe"

	"github.com/cinar/indicator/v2/asset"
	"github.com/cinar/indicator/v2/strategy"
	"github.com/cinar/indicator/v2/trend"
	"simrt"
)

// C09, process-history part: "an indicator or strategy value holds configuration only" - what a
// call returns is a function of the instance's configuration and of the input, not of what other
// instances did earlier in the same process (package-level caches, pools, memoised set-ups).
//
// A process cannot observe its own history dependence when the first arrival wins for the rest of
// the process, so this part compares processes: a fixed set of single-call cases ("canaries",
// grouped so that members share the type, the configuration, the data, or everything but one
// non-period parameter) is executed by several fresh child processes in different seeded orders;
// every canary must produce bit-identical results in every process. A difference is minimised to
// (poisoner, victim) and replayed by running the victim alone and after the poisoner in two fresh
// processes.

// scaleFloats multiplies every float64 configuration field reachable from v by f (variants of the
// non-period parameters: smoothing constants, percentages, multipliers, initial values).
func scaleFloats(v reflect.Value, f float64, depth int) {
	scaleFloatsOnce(v, f, depth, map[uintptr]bool{})
}

// scaleFloatsOnce: a value reachable twice (one strategy listed twice in a compound) is scaled once.
func scaleFloatsOnce(v reflect.Value, f float64, depth int, seen map[uintptr]bool) {
	if depth > 64 || f == 1 {
		return
	}
	switch v.Kind() {
	case reflect.Ptr:
		if !v.IsNil() {
			if seen[v.Pointer()] {
				return
			}
			seen[v.Pointer()] = true
			scaleFloatsOnce(v.Elem(), f, depth+1, seen)
		}
	case reflect.Interface:
		if !v.IsNil() {
			scaleFloatsOnce(v.Elem(), f, depth+1, seen)
		}
	case reflect.Struct:
		for i := 0; i < v.NumField(); i++ {
			fl := v.Field(i)
			if !fl.CanSet() {
				if !fl.CanAddr() {
					continue
				}
				fl = reflect.NewAt(fl.Type(), unsafe.Pointer(fl.UnsafeAddr())).Elem()
			}
			if fl.Kind() == reflect.Float64 {
				fl.SetFloat(fl.Float() * f)
			} else {
				scaleFloatsOnce(fl, f, depth+1, seen)
			}
		}
	case reflect.Slice:
		for i := 0; i < v.Len(); i++ {
			scaleFloatsOnce(v.Index(i), f, depth+1, seen)
		}
	}
}

// rescaleExported divides the period fields a caller can reach (exported fields, through exported
// fields only) by k: a reconfiguration of a live instance between two calls.
func rescaleExported(v reflect.Value, k int, depth int) {
	rescaleExportedOnce(v, k, depth, map[uintptr]bool{})
}

func rescaleExportedOnce(v reflect.Value, k int, depth int, seen map[uintptr]bool) {
	if depth > 64 || k <= 1 {
		return
	}
	switch v.Kind() {
	case reflect.Ptr:
		if !v.IsNil() {
			if seen[v.Pointer()] {
				return
			}
			seen[v.Pointer()] = true
			rescaleExportedOnce(v.Elem(), k, depth+1, seen)
		}
	case reflect.Interface:
		if !v.IsNil() {
			rescaleExportedOnce(v.Elem(), k, depth+1, seen)
		}
	case reflect.Struct:
		for i := 0; i < v.NumField(); i++ {
			sf := v.Type().Field(i)
			f := v.Field(i)
			if !sf.IsExported() || !f.CanSet() {
				continue
			}
			if f.Kind() == reflect.Int && strings.Contains(sf.Name, "Period") {
				f.SetInt(int64(max(1, (int(f.Int())+k-1)/k)))
			} else if swapMa && f.Kind() == reflect.Interface && strings.Contains(f.Type().String(), ".Ma[") {
				// a moving average held in an exported field is replaced after construction (a user
				// choosing another smoothing): whatever the owner derived from the old one at
				// construction time must not survive
				// (a slower one: the owners document no order between this smoothing and their other
				// windows, but several rely on it being the slowest stage, as their defaults make it)
				idle := 0
				if !f.IsNil() {
					if m := f.Elem().MethodByName("IdlePeriod"); m.IsValid() {
						idle = int(m.Call(nil)[0].Int())
					}
				}
				f.Set(reflect.ValueOf(trend.NewSmaWithPeriod[F](idle + 5)))
			} else {
				rescaleExportedOnce(f, k, depth+1, seen)
			}
		}
	case reflect.Slice:
		for i := 0; i < v.Len(); i++ {
			rescaleExportedOnce(v.Index(i), k, depth+1, seen)
		}
	}
}

// swapMa: see rescaleExportedOnce; set by scaleConfig for the cases that configure through
// exported fields only.
var swapMa bool

var variantFactor = []float64{1, 1.5, 0.5, 0} // 0: degenerate but legal (an index that starts at zero, a zero percentage)

// makeIndV is makeInd plus the variant of the non-period parameters.
func makeIndV(e *IndEntity, cfg []int, scale, variant int) *IndInstance {
	ii := makeInd(e, cfg, scale)
	if variant > 0 {
		scaleFloats(reflect.ValueOf(ii.Inst), variantFactor[variant%len(variantFactor)], 0)
	}
	return ii
}

// buildStrategyV is buildStrategy plus the variant of the non-period parameters.
func buildStrategyV(s SubSpec, variant int) strategy.Strategy {
	st := buildStrategy(s)
	if variant > 0 {
		scaleFloats(reflect.ValueOf(st), variantFactor[variant%len(variantFactor)], 0)
	}
	return st
}

// ind and strat build the instance a pipeline case is about (configuration, scale and variant).
func (c *Case) ind() *IndInstance {
	return makeIndV(indByName[c.Entity], c.Cfg, c.Scale, c.Variant)
}

func (c *Case) strat() strategy.Strategy { return buildStrategyV(c.spec(), c.Variant) }

// canaryResult runs the first call of the case on a fresh instance under the canonical schedule
// and returns everything observable: termination, outputs, rendered report.
func canaryResult(c *Case) (digest string, flat []float64) {
	cs := c.Calls[0]
	h := uint64(14695981039346656037)
	mix := func(x uint64) { h = splitmix(h ^ x) }
	switch c.Family {
	case "ind":
		e := indByName[c.Entity]
		lens := make([]int, len(e.Sig))
		for i := range lens {
			lens[i] = cs.Len
		}
		in := floatInputs(e.Sig, lens, cs.Shape, cs.DataSeed)
		r := runPipe(PipeOpts{SimOpts: SimOpts{Policy: simrt.PolicySpec{Name: "fifo"}}}, in, makeIndV(e, c.Cfg, c.Scale, c.Variant).Build())
		ok, _, _ := termination(&r.SimOut, r.Closed, r.ProdDone, r.Built)
		if !ok {
			mix(1)
		}
		for j := range r.Outs {
			mix(uint64(len(r.Outs[j])) + 77)
			for _, v := range r.Outs[j] {
				flat = append(flat, v)
				mix(math.Float64bits(v))
			}
		}
	case "strat":
		series := genSnapshots(cs.Len, cs.Shape, cs.DataSeed, epoch)
		if cs.Report {
			var buf bytes.Buffer
			done := false
			simulate(SimOpts{Policy: simrt.PolicySpec{Name: "fifo"}}, func(s *simrt.Sim) {
				in := make(chan *asset.Snapshot)
				simrt.GoKind("prod", func() {
					for _, v := range series {
						prodYield()
						in <- v
					}
					simrt.Yield(-3, "prod-close")
					close(in)
				})
				simrt.GoKind("client", func() {
					if err := buildStrategyV(c.spec(), c.Variant).Report(in).WriteToWriter(&buf); err != nil {
						buf.WriteString("ERROR " + err.Error())
					}
					done = true
				})
			})
			if !done {
				mix(1)
			}
			mix(hashString(stripGenerated(buf.String())))
			flat = append(flat, float64(buf.Len()))
			break
		}
		r := runPipe(PipeOpts{SimOpts: SimOpts{Policy: simrt.PolicySpec{Name: "fifo"}}}, [][]*asset.Snapshot{series},
			func(in []<-chan *asset.Snapshot) []<-chan strategy.Action {
				return []<-chan strategy.Action{buildStrategyV(c.spec(), c.Variant).Compute(in[0])}
			})
		ok, _, _ := termination(&r.SimOut, r.Closed, r.ProdDone, r.Built)
		if !ok {
			mix(1)
		}
		for j := range r.Outs {
			mix(uint64(len(r.Outs[j])) + 77)
			for _, a := range r.Outs[j] {
				flat = append(flat, float64(a))
				mix(uint64(int64(a)) + 3)
			}
		}
	}
	return fmt.Sprintf("%016x", h), flat
}

func canaryDesc(c *Case) string {
	ent := c.Entity
	if c.Family == "strat" {
		ent = specName(c.spec())
	}
	cs := c.Calls[0]
	what := "Compute"
	if cs.Report {
		what = "Report"
	}
	return fmt.Sprintf("%s cfg=%v scale=%d variant=x%.1f %s(n=%d shape=%d data=%d)", ent, c.Cfg, c.Scale, variantFactor[c.Variant%len(variantFactor)], what, cs.Len, cs.Shape, cs.DataSeed)
}

// genCanaries draws groups of four related single-call cases.
func genCanaries(rng *rand.Rand, tier string, groups int) []*Case {
	var out []*Case
	for g := 0; g < groups; g++ {
		b := c09{}.Gen(rng, tier, g)
		b.Prop = "C09"
		b.Mode = "sequential"
		b.Policy = simrt.PolicySpec{Name: "fifo"}
		b.Cap = 0
		var w int
		if b.Family == "ind" {
			w = makeInd(indByName[b.Entity], b.Cfg, b.Scale).Idle
		} else {
			w = max(0, measureWarmup(b))
		}
		b.Calls = b.Calls[:1]
		b.Calls[0].Len = min(w+3+rng.Intn(12), 160)
		if b.Family != "strat" {
			b.Calls[0].Report = false
		}
		b.Variant = 0
		out = append(out, b)
		// same configuration, other data
		d := *b
		d.Calls = []CallSpec{b.Calls[0]}
		d.Calls[0].DataSeed = rng.Int63n(1 << 30)
		d.Calls[0].Shape = rng.Intn(NumShapes)
		out = append(out, &d)
		// same periods and data, other non-period parameters
		v := *b
		v.Calls = []CallSpec{b.Calls[0]}
		v.Variant = 1 + rng.Intn(2)
		out = append(out, &v)
		// same type and data, other periods (monotone change: documented orderings survive)
		p := *b
		p.Calls = []CallSpec{b.Calls[0]}
		if len(b.Cfg) > 0 {
			p.Cfg = append([]int(nil), b.Cfg...)
			for i := range p.Cfg {
				p.Cfg[i]++
			}
		} else {
			p.Scale = map[int]int{0: 2, 1: 2, 2: 3, 3: 4, 4: 6, 6: 8, 8: 6}[b.Scale]
		}
		p.Subs = b.Subs
		out = append(out, &p)
	}
	return out
}

// histChildMain executes the cases of $VHIST in order and prints one digest line per case.
func histChildMain() int {
	b, err := os.ReadFile(os.Getenv("VHIST"))
	if err != nil {
		fmt.Fprintln(os.Stderr, err)
		return 2
	}
	var list []*Case
	if err := json.Unmarshal(b, &list); err != nil {
		fmt.Fprintln(os.Stderr, err)
		return 2
	}
	dump := os.Getenv("VHISTDUMP") != ""
	w := bufio.NewWriter(os.Stdout)
	defer w.Flush()
	for i, c := range list {
		d, flat := canaryResult(c)
		fmt.Fprintf(w, "HIST %d %s\n", i, d)
		if dump && i == len(list)-1 {
			fb, _ := json.Marshal(floatsToStrings(flat))
			fmt.Fprintf(w, "HISTDUMP %s\n", fb)
		}
	}
	return 0
}

func floatsToStrings(f []float64) []string {
	s := make([]string, len(f))
	for i, v := range f {
		s[i] = fmt.Sprint(v)
	}
	return s
}

// runHistChild runs the cases in a fresh process of this binary; returns the digests (and the
// dumped outputs of the last case).
func runHistChild(dir string, list []*Case, dump bool) ([]string, []string, error) {
	return runHistChildProcs(dir, list, dump, 2)
}

// runHistChildProcs is runHistChild with the child's GOMAXPROCS.
func runHistChildProcs(dir string, list []*Case, dump bool, procs int) ([]string, []string, error) {
	f, err := os.CreateTemp(dir, "hist-*.json")
	if err != nil {
		return nil, nil, err
	}
	defer os.Remove(f.Name())
	b, _ := json.Marshal(list)
	f.Write(b)
	f.Close()
	cmd := exec.Command(os.Args[0], "-test.run", "^TestSim$", "-test.timeout", "0")
	cmd.Env = append(os.Environ(), "VMODE=histchild", "VHIST="+f.Name(), fmt.Sprintf("GOMAXPROCS=%d", procs))
	if dump {
		cmd.Env = append(cmd.Env, "VHISTDUMP=1")
	}
	var out, errb bytes.Buffer
	cmd.Stdout, cmd.Stderr = &out, &errb
	if err := cmd.Run(); err != nil {
		return nil, nil, fmt.Errorf("history child: %v: %s", err, tailString(errb.String()+out.String(), 600))
	}
	dig := make([]string, len(list))
	var dumped []string
	for _, ln := range strings.Split(out.String(), "\n") {
		var i int
		var d string
		if n, _ := fmt.Sscanf(ln, "HIST %d %s", &i, &d); n == 2 && i >= 0 && i < len(dig) {
			dig[i] = d
		} else if strings.HasPrefix(ln, "HISTDUMP ") {
			json.Unmarshal([]byte(ln[len("HISTDUMP "):]), &dumped)
		}
	}
	for i, d := range dig {
		if d == "" {
			return nil, nil, fmt.Errorf("history child: no digest for case %d: %s", i, tailString(errb.String(), 600))
		}
	}
	return dig, dumped, nil
}

func tailString(s string, n int) string {
	if len(s) > n {
		return s[len(s)-n:]
	}
	return s
}

// historyVerdict runs the victim alone and after the given predecessors in two fresh processes.
func historyVerdict(dir string, pre []*Case, victim *Case) (differs bool, detail string, err error) {
	alone, da, err := runHistChild(dir, []*Case{victim}, true)
	if err != nil {
		return false, "", err
	}
	after, db, err := runHistChild(dir, append(append([]*Case{}, pre...), victim), true)
	if err != nil {
		return false, "", err
	}
	if alone[0] == after[len(after)-1] {
		return false, "", nil
	}
	where := "termination or report text"
	for i := 0; i < len(da) && i < len(db); i++ {
		if da[i] != db[i] {
			where = fmt.Sprintf("value %d is %s alone and %s afterwards", i, da[i], db[i])
			break
		}
	}
	if len(da) != len(db) {
		where = fmt.Sprintf("%d values alone, %d afterwards", len(da), len(db))
	}
	return true, where, nil
}

// historyMain is the parent of the process-history part (one per round, beside the workers).
func historyMain() int {
	prop := envOr("VCHECK", "C09")
	tier := envOr("VERIF_TIER", "quick")
	base := envInt("VERIF_SEED", 1)
	round := envInt("VROUND", 0)
	budget := time.Duration(envInt("VBUDGET_S", 20)) * time.Second
	outPath := os.Getenv("VOUT")
	replayDir := envOr("VREPLAYDIR", "/verif/out/replays")
	dir := envOr("VFSDIR", os.TempDir())
	known := loadKnown(envOr("VKNOWN", "/verif/known_findings.json"))
	st := newStats()
	st.Prop, st.Tier, st.Seed, st.Worker = prop, tier, int64(base), 900
	start := time.Now()
	groups, orders := 50, 4
	if tier == "thorough" {
		groups, orders = 120, 6
	}
	novel := map[string]bool{}
	for batch := 0; time.Since(start) < budget*7/10; batch++ {
		seed := int64(splitmix(uint64(base)*2000003+uint64(round)*15485863+uint64(batch)*7907+99) >> 1)
		rng := rand.New(rand.NewSource(seed))
		can := genCanaries(rng, tier, groups)
		// orders: as generated, reversed, seeded permutations
		perms := [][]int{}
		id := make([]int, len(can))
		rev := make([]int, len(can))
		for i := range id {
			id[i], rev[i] = i, len(can)-1-i
		}
		perms = append(perms, id, rev)
		for k := 0; k < orders; k++ {
			perms = append(perms, rng.Perm(len(can)))
		}
		digs := make([][]string, len(perms)) // digs[p][canary]
		for p, perm := range perms {
			if p >= 2 && time.Since(start) > budget {
				break // out of time: the orders run so far are compared
			}
			list := make([]*Case, len(perm))
			for i, ci := range perm {
				list[i] = can[ci]
			}
			d, _, err := runHistChild(dir, list, false)
			if err != nil {
				st.Infra = append(st.Infra, err.Error())
				break
			}
			digs[p] = make([]string, len(can))
			for i, ci := range perm {
				digs[p][ci] = d[i]
			}
			st.Sims += len(list)
			st.Faults["process-history-orders(fresh-process-each)"]++
		}
		st.Evaluations += len(can)
		for ci, c := range can {
			if len(st.Violations) >= 3 {
				break
			}
			ent := c.Entity
			if c.Family == "strat" {
				ent = specName(c.spec())
			}
			st.Entities[ent]++
			agree := true
			bad := -1
			for p := range perms {
				if digs[p] == nil || digs[0] == nil {
					continue
				}
				if digs[p][ci] != digs[0][ci] {
					agree, bad = false, p
					break
				}
			}
			if agree {
				st.Probes["canaries-identical-in-all-process-histories"]++
				st.cell(c.Family, ent, "history", fmt.Sprint(c.Variant))
				continue
			}
			v := Violation{Prop: "C09", Entity: ent, Kind: "depends-on-process-history", Regime: "instances-in-one-process"}
			if _, ok := known.Match(v); ok || novel[v.Key()] {
				continue
			}
			// which of the two orders differs from the victim alone, and after which predecessor
			var pair []*Case
			detail := ""
			for _, p := range []int{bad, 0} {
				pos := 0
				for i, x := range perms[p] {
					if x == ci {
						pos = i
					}
				}
				pre := make([]*Case, pos)
				for i := 0; i < pos; i++ {
					pre[i] = can[perms[p][i]]
				}
				diff, _, err := historyVerdict(dir, pre, c)
				if err != nil || !diff {
					continue
				}
				// single poisoner: same type first, then anyone (bounded)
				cand := append([]*Case{}, pre...)
				sort.SliceStable(cand, func(i, j int) bool { return cand[i].Entity == c.Entity && cand[j].Entity != c.Entity })
				deadline := time.Now().Add(40 * time.Second)
				for _, q := range cand {
					if time.Now().After(deadline) {
						break
					}
					if d2, w, err := historyVerdict(dir, []*Case{q}, c); err == nil && d2 {
						pair, detail = []*Case{q}, w
						break
					}
				}
				if pair == nil {
					// shortest prefix that still does it
					lo, hi := 1, len(pre)
					for lo < hi {
						mid := (lo + hi) / 2
						if d2, _, err := historyVerdict(dir, pre[:mid], c); err == nil && d2 {
							hi = mid
						} else {
							lo = mid + 1
						}
					}
					_, w, _ := historyVerdict(dir, pre[:hi], c)
					pair, detail = pre[:hi], w
				}
				break
			}
			if pair == nil {
				st.Infra = append(st.Infra, "process-history difference of "+canaryDesc(c)+" did not reproduce against the case alone")
				continue
			}
			novel[v.Key()] = true
			v.Detail = fmt.Sprintf("%s: the result depends on what ran before in the process: after %s (%d earlier call(s) on other instances) %s",
				canaryDesc(c), canaryDesc(pair[len(pair)-1]), len(pair), detail)
			os.MkdirAll(replayDir, 0o755)
			path := filepath.Join(replayDir, fmt.Sprintf("C09-%s-%d.json", sanitize(ent+"-history"), seed))
			rf := ReplayFile{Violation: v, Case: c, History: pair,
				Note: "replay: /verif/check C09 replay " + path + " (rebuilds from /repo; runs the case alone and after the listed history in two fresh processes; expects different results)"}
			rb, _ := json.MarshalIndent(rf, "", " ")
			os.WriteFile(path, rb, 0o644)
			st.Violations = append(st.Violations, ViolationReport{Violation: v, Replay: path, Seed: seed})
		}
		if len(st.Violations) >= 3 || len(st.Infra) > 0 {
			break
		}
	}
	st.WallS = time.Since(start).Seconds()
	for k := range st.Cells {
		st.CellList = append(st.CellList, k)
	}
	sort.Strings(st.CellList)
	b, _ := json.Marshal(st)
	if outPath != "" {
		if err := os.WriteFile(outPath, b, 0o644); err != nil {
			fmt.Fprintln(os.Stderr, err)
			return 2
		}
	}
	return 0
}

// historyReplayMain re-runs a process-history replay file.
func historyReplayMain(rf *ReplayFile, path string) int {
	dir := envOr("VFSDIR", os.TempDir())
	diff, where, err := historyVerdict(dir, rf.History, rf.Case)
	if err != nil {
		fmt.Printf("infrastructure: %v\n", err)
		return 2
	}
	if diff {
		fmt.Printf("REPRODUCED %s: %s\n", rf.Violation.Key(), where)
		fmt.Printf("VIOLATION property=%s replay=%s\n", rf.Violation.Prop, path)
		return 1
	}
	fmt.Printf("NOT REPRODUCED %s (the case gives the same result alone and after the recorded history)\n", rf.Violation.Key())
	return 0
}

// C03, "the number of OS threads" part at every tier: the same single-call cases are evaluated by
// fresh child processes that differ only in GOMAXPROCS; every case must give bit-identical results
// in all of them (code that sizes buffers, lanes or batches by the processor count shows here, also
// under the canonical schedule).

var procsLevels = []int{1, 2, 4, 16}

func genProcCanaries(rng *rand.Rand, tier string, n int) []*Case {
	var out []*Case
	for len(out) < n {
		b := c09{}.Gen(rng, tier, len(out))
		b.Prop = "C03"
		b.Mode = "sequential"
		b.Policy = simrt.PolicySpec{Name: "fifo"}
		b.Cap = 0
		b.Variant = 0
		if b.Family == "ind" && rng.Intn(2) == 0 {
			if e := indByName[b.Entity]; e.NCfg > 0 {
				b.Cfg = make([]int, e.NCfg) // long windows: a quarter, half a year
				for i := range b.Cfg {
					b.Cfg[i] = 33 + rng.Intn(100)
				}
				b.Scale = 1
			}
		}
		var w int
		if b.Family == "ind" {
			w = makeInd(indByName[b.Entity], b.Cfg, b.Scale).Idle
		} else {
			w = max(0, measureWarmup(b))
		}
		if w < 0 || w > 400 {
			continue
		}
		b.Calls = b.Calls[:1]
		b.Calls[0].Len = w + 3 + rng.Intn(12)
		b.Calls[0].Report = b.Calls[0].Report && b.Family == "strat"
		out = append(out, b)
	}
	return out
}

func procsVerdict(dir string, c *Case, a, b int) (bool, string, error) {
	da, fa, err := runHistChildProcs(dir, []*Case{c}, true, a)
	if err != nil {
		return false, "", err
	}
	db, fb, err := runHistChildProcs(dir, []*Case{c}, true, b)
	if err != nil {
		return false, "", err
	}
	if da[0] == db[0] {
		return false, "", nil
	}
	where := "termination or report text"
	for i := 0; i < len(fa) && i < len(fb); i++ {
		if fa[i] != fb[i] {
			where = fmt.Sprintf("value %d is %s with GOMAXPROCS=%d and %s with GOMAXPROCS=%d", i, fa[i], a, fb[i], b)
			break
		}
	}
	if len(fa) != len(fb) {
		where = fmt.Sprintf("%d values with GOMAXPROCS=%d, %d with GOMAXPROCS=%d", len(fa), a, len(fb), b)
	}
	return true, where, nil
}

// procsMain is the parent of the GOMAXPROCS part (one per round, beside the workers).
func procsMain() int {
	prop := envOr("VCHECK", "C03")
	tier := envOr("VERIF_TIER", "quick")
	base := envInt("VERIF_SEED", 1)
	round := envInt("VROUND", 0)
	budget := time.Duration(envInt("VBUDGET_S", 20)) * time.Second
	outPath := os.Getenv("VOUT")
	replayDir := envOr("VREPLAYDIR", "/verif/out/replays")
	dir := envOr("VFSDIR", os.TempDir())
	known := loadKnown(envOr("VKNOWN", "/verif/known_findings.json"))
	st := newStats()
	st.Prop, st.Tier, st.Seed, st.Worker = prop, tier, int64(base), 901
	start := time.Now()
	novel := map[string]bool{}
	for batch := 0; time.Since(start) < budget*6/10; batch++ {
		seed := int64(splitmix(uint64(base)*3000017+uint64(round)*15485867+uint64(batch)*7919+5) >> 1)
		rng := rand.New(rand.NewSource(seed))
		can := genProcCanaries(rng, tier, 220)
		digs := map[int][]string{}
		for _, p := range procsLevels {
			if p != procsLevels[0] && p != procsLevels[1] && time.Since(start) > budget {
				break
			}
			d, _, err := runHistChildProcs(dir, can, false, p)
			if err != nil {
				st.Infra = append(st.Infra, err.Error())
				break
			}
			digs[p] = d
			st.Sims += len(can)
			st.Faults[fmt.Sprintf("process-with-GOMAXPROCS=%d", p)]++
		}
		st.Evaluations += len(can)
		ref := digs[procsLevels[0]]
		for ci, c := range can {
			if ref == nil || len(st.Violations) >= 3 {
				break
			}
			ent := c.Entity
			if c.Family == "strat" {
				ent = specName(c.spec())
			}
			st.Entities[ent]++
			bad := 0
			for _, p := range procsLevels[1:] {
				if d := digs[p]; d != nil && d[ci] != ref[ci] {
					bad = p
					break
				}
			}
			if bad == 0 {
				st.Probes["cases-identical-for-every-GOMAXPROCS"]++
				st.cell(c.Family, ent, "gomaxprocs")
				continue
			}
			v := Violation{Prop: "C03", Entity: ent, Kind: "depends-on-gomaxprocs", Regime: "os-threads"}
			if _, ok := known.Match(v); ok || novel[v.Key()] {
				continue
			}
			diff, where, err := procsVerdict(dir, c, procsLevels[0], bad)
			if err != nil || !diff {
				st.Infra = append(st.Infra, "GOMAXPROCS difference of "+canaryDesc(c)+" did not reproduce on its own")
				continue
			}
			novel[v.Key()] = true
			v.Detail = fmt.Sprintf("%s: the result depends on the number of OS threads: %s", canaryDesc(c), where)
			os.MkdirAll(replayDir, 0o755)
			path := filepath.Join(replayDir, fmt.Sprintf("C03-%s-%d.json", sanitize(ent+"-gomaxprocs"), seed))
			rf := ReplayFile{Violation: v, Case: c, ProcsPair: []int{procsLevels[0], bad},
				Note: "replay: /verif/check C03 replay " + path + " (rebuilds from /repo; evaluates the case in two fresh processes with the two GOMAXPROCS values; expects different results)"}
			rb, _ := json.MarshalIndent(rf, "", " ")
			os.WriteFile(path, rb, 0o644)
			st.Violations = append(st.Violations, ViolationReport{Violation: v, Replay: path, Seed: seed})
		}
		if len(st.Violations) >= 3 || len(st.Infra) > 0 {
			break
		}
	}
	st.WallS = time.Since(start).Seconds()
	for k := range st.Cells {
		st.CellList = append(st.CellList, k)
	}
	sort.Strings(st.CellList)
	b, _ := json.Marshal(st)
	if outPath != "" {
		if err := os.WriteFile(outPath, b, 0o644); err != nil {
			fmt.Fprintln(os.Stderr, err)
			return 2
		}
	}
	return 0
}

// procsReplayMain re-runs a GOMAXPROCS replay file.
func procsReplayMain(rf *ReplayFile, path string) int {
	dir := envOr("VFSDIR", os.TempDir())
	diff, where, err := procsVerdict(dir, rf.Case, rf.ProcsPair[0], rf.ProcsPair[1])
	if err != nil {
		fmt.Printf("infrastructure: %v\n", err)
		return 2
	}
	if diff {
		fmt.Printf("REPRODUCED %s: %s\n", rf.Violation.Key(), where)
		fmt.Printf("VIOLATION property=%s replay=%s\n", rf.Violation.Prop, path)
		return 1
	}
	fmt.Printf("NOT REPRODUCED %s (the case gives the same result with both GOMAXPROCS values)\n", rf.Violation.Key())
	return 0
}
