package harness

import (
	"bytes"
	"encoding/csv"
	"encoding/json"
	"errors"
	"fmt"
	"io"
	"math/rand"
	"net/http"
	"os"
	"path/filepath"
	"reflect"
	"strconv"
	"time"

	"github.com/cinar/indicator/v2/asset"
	"github.com/cinar/indicator/v2/helper"
	"simrt"
)

// row shapes read by the CSV reader in C19
type shapeA struct {
	Name  string
	Value float64
	Count int
}

type shapeB struct {
	Flag bool `header:"flag"`
	When time.Time
	U    uint16
	Text string `header:"the text"`
	F    float32
}

// shapeN: a row struct with fields of defined (named) types, one of them a struct type that is
// not time.Time itself - the codec cannot fill that one and has to say so, not crash.
type stampT time.Time
type levelT float64

// shapeT: a row struct of strings only - an empty cell is a value, a row of empty cells a row.
type shapeT struct {
	Name string
	Note string `header:"the note"`
	Tag  string
}

// shapeD: a date-only column followed by a time column without a format tag (the default layout).
type shapeD struct {
	Day  time.Time `format:"2006-01-02"`
	At   time.Time
	Note string
}

type shapeN struct {
	Name  string
	Level levelT
	Stamp stampT
}

// maxRequestsPerCall bounds how often one repository call may ask a server whose answer never
// changes (retries with back-off are fine; asking for ever is "blocks forever").
const maxRequestsPerCall = 64

// simTransport is the simulated network: it answers every request from a script.
type simTransport struct {
	clen    int64 // Content-Length to announce (-1: unknown / chunked)
	status  int
	body    *FragReader
	err     error
	calls   int
	lastURL string
}

func (t *simTransport) RoundTrip(req *http.Request) (*http.Response, error) {
	simrt.Yield(-10, "http-roundtrip")
	t.calls++
	t.lastURL = req.URL.String()
	if t.err != nil {
		return nil, t.err
	}
	if t.calls > maxRequestsPerCall {
		// the server's answer has not changed for this many requests: stop the run here, the oracle
		// reports that the call does not give up
		return nil, errors.New("simulated transport: request budget of one call exhausted")
	}
	// like a real transport, the body dies with the request's context
	t.body.Ctx = req.Context()
	hdr := http.Header{}
	if enc := negotiateEncoding(req, hdr, t.body.Data); hdr.Get("Content-Encoding") != "" {
		t.body.Data, t.body.ErrAt = enc, -1
	}
	return &http.Response{
		StatusCode: t.status, Status: fmt.Sprintf("%d %s", t.status, http.StatusText(t.status)),
		Proto: "HTTP/1.1", ProtoMajor: 1, ProtoMinor: 1, Header: hdr, Body: t.body, Request: req, ContentLength: t.clen,
	}, nil
}

// ---- reference decoders (standard library only, driven record by record)

func refField(v reflect.Value, s, format string) error {
	switch v.Kind() {
	case reflect.String:
		v.SetString(s)
	case reflect.Bool:
		b, err := strconv.ParseBool(s)
		if err != nil {
			return err
		}
		v.SetBool(b)
	case reflect.Int, reflect.Int8, reflect.Int16, reflect.Int32, reflect.Int64:
		x, err := strconv.ParseInt(s, 10, v.Type().Bits())
		if err != nil {
			return err
		}
		v.SetInt(x)
	case reflect.Uint, reflect.Uint8, reflect.Uint16, reflect.Uint32, reflect.Uint64:
		x, err := strconv.ParseUint(s, 10, v.Type().Bits())
		if err != nil {
			return err
		}
		v.SetUint(x)
	case reflect.Float32, reflect.Float64:
		x, err := strconv.ParseFloat(s, v.Type().Bits())
		if err != nil {
			return err
		}
		v.SetFloat(x)
	default:
		if v.Type() != reflect.TypeOf(time.Time{}) {
			return errors.New("a struct type other than time.Time is not a supported column type")
		}
		t, err := time.Parse(format, s)
		if err != nil {
			return err
		}
		v.Set(reflect.ValueOf(t))
	}
	return nil
}

// refCsv decodes the well-formed prefix of a CSV document into rows of type T.
func refCsv[T any](r io.Reader, hasHeader bool) []*T {
	t := reflect.TypeOf((*T)(nil)).Elem()
	idx := make([]int, t.NumField())
	formats := make([]string, t.NumField())
	for i := range idx {
		idx[i] = i
		formats[i] = "2006-01-02 15:04:05"
		if f, ok := t.Field(i).Tag.Lookup("format"); ok {
			formats[i] = f
		}
	}
	cr := csv.NewReader(r)
	if hasHeader {
		head, err := cr.Read()
		if err != nil {
			return nil
		}
		pos := map[string]int{}
		for i, h := range head {
			pos[h] = i
		}
		for i := range idx {
			name := t.Field(i).Name
			if h, ok := t.Field(i).Tag.Lookup("header"); ok {
				name = h
			}
			if p, ok := pos[name]; ok {
				idx[i] = p
			} else {
				idx[i] = -1
			}
		}
	}
	var rows []*T
	for {
		rec, err := cr.Read()
		if err != nil {
			return rows
		}
		row := new(T)
		v := reflect.ValueOf(row).Elem()
		for i, p := range idx {
			if p < 0 {
				continue
			}
			if p >= len(rec) {
				return rows // too few fields: malformed, the well-formed prefix ends here
			}
			if refField(v.Field(i), rec[p], formats[i]) != nil {
				return rows
			}
		}
		rows = append(rows, row)
	}
}

func refJSON[T any](r io.Reader) []T {
	dec := json.NewDecoder(r)
	tok, err := dec.Token()
	if err != nil || tok != json.Delim('[') {
		return nil
	}
	var out []T
	for dec.More() {
		var v T
		if dec.Decode(&v) != nil {
			return out
		}
		out = append(out, v)
	}
	return out
}

// ---- documents and mutations

func validCsv(rng *rand.Rand, shape string, header bool, n int) []byte {
	var buf bytes.Buffer
	w := csv.NewWriter(&buf)
	switch shape {
	case "A":
		if header {
			w.Write([]string{"Name", "Value", "Count"})
		}
		for i := 0; i < n; i++ {
			w.Write([]string{strPool[rng.Intn(len(strPool))], strconv.FormatFloat(rng.NormFloat64()*100, 'g', -1, 64), strconv.Itoa(rng.Intn(1000) - 500)})
		}
	case "B":
		if header {
			w.Write([]string{"flag", "When", "U", "the text", "F"})
		}
		for i := 0; i < n; i++ {
			w.Write([]string{strconv.FormatBool(rng.Intn(2) == 0), time.Date(2020, 1, 1+rng.Intn(300), rng.Intn(24), 0, 0, 0, time.UTC).Format("2006-01-02 15:04:05"),
				strconv.Itoa(rng.Intn(65536)), strPool[rng.Intn(len(strPool))], strconv.FormatFloat(float64(float32(rng.NormFloat64())), 'g', -1, 32)})
		}
	case "N":
		if header {
			w.Write([]string{"Name", "Level", "Stamp"})
		}
		for i := 0; i < n; i++ {
			w.Write([]string{strPool[rng.Intn(len(strPool))], strconv.FormatFloat(rng.NormFloat64(), 'g', -1, 64), time.Date(2020, 1, 1+rng.Intn(300), 0, 0, 0, 0, time.UTC).Format("2006-01-02 15:04:05")})
		}
	case "D":
		if header {
			w.Write([]string{"Day", "At", "Note"})
		}
		for i := 0; i < n; i++ {
			d := time.Date(2020, 1, 1+rng.Intn(300), rng.Intn(24), rng.Intn(60), rng.Intn(60), 0, time.UTC)
			w.Write([]string{d.Format("2006-01-02"), d.Format("2006-01-02 15:04:05"), strPool[rng.Intn(len(strPool))]})
		}
	case "T":
		if header {
			w.Write([]string{"Name", "the note", "Tag"})
		}
		for i := 0; i < n; i++ {
			cell := func() string {
				if rng.Intn(2) == 0 {
					return ""
				}
				return strPool[rng.Intn(len(strPool))]
			}
			w.Write([]string{cell(), cell(), cell()})
		}
	case "S":
		if header {
			w.Write([]string{"Date", "Open", "High", "Low", "Close", "Volume"})
		}
		for i, s := range genSnapshots(n, rng.Intn(NumShapes), rng.Int63n(1000), epoch) {
			_ = i
			w.Write([]string{s.Date.Format("2006-01-02"), fmt.Sprint(s.Open), fmt.Sprint(s.High), fmt.Sprint(s.Low), fmt.Sprint(s.Close), fmt.Sprint(s.Volume)})
		}
	}
	w.Flush()
	return buf.Bytes()
}

func validTiingo(rng *rand.Rand, n int) []byte {
	var rows []asset.TiingoEndOfDay
	for _, s := range genSnapshots(n, rng.Intn(NumShapes), rng.Int63n(1000), epoch) {
		rows = append(rows, asset.TiingoEndOfDay{Date: s.Date, Open: s.Open, High: s.High, Low: s.Low, Close: s.Close, Volume: int64(s.Volume),
			AdjOpen: s.Open, AdjHigh: s.High, AdjLow: s.Low, AdjClose: s.Close, AdjVolume: int64(s.Volume), Split: 1})
	}
	if rows == nil {
		return []byte("[]")
	}
	b, _ := json.Marshal(rows)
	return b
}

var junk = []byte("\",\n\r[]{}:0123456789.-eE+ tfnaux\\\x00\xff'")

// mutate applies 0..3 drawn faults to a document.
func mutate(rng *rand.Rand, doc []byte, st *map[string]int) []byte {
	d := append([]byte{}, doc...)
	k := rng.Intn(4)
	if rng.Intn(3) == 0 {
		k = 0
	}
	note := func(s string) {
		if st != nil {
			(*st)[s]++
		}
	}
	for i := 0; i < k; i++ {
		switch rng.Intn(10) {
		case 9: // replace one element of a JSON array (or one CSV field) by a value of another JSON type
			if a := bytes.IndexByte(d, '{'); a >= 0 {
				// pick the n-th object
				starts := []int{}
				for p := 0; p < len(d); p++ {
					if d[p] == '{' {
						starts = append(starts, p)
					}
				}
				a = starts[rng.Intn(len(starts))]
				if b := bytes.IndexByte(d[a:], '}'); b >= 0 {
					repl := [][]byte{[]byte("null"), []byte("5"), []byte(`"x"`), []byte("[]"), []byte("true"), []byte("{}"), []byte(`{"date":null}`), []byte(`{"date":5}`)}[rng.Intn(8)]
					d = append(d[:a], append(append([]byte{}, repl...), d[a+b+1:]...)...)
					note("mut:json-element-of-other-type")
				}
			} else if a := bytes.IndexByte(d, ','); a >= 0 {
				d = append(d[:a+1], append([]byte("null"), d[a+1:]...)...)
				note("mut:insert-null-field")
			}
		case 0: // cut at any byte
			if len(d) > 0 {
				d = d[:rng.Intn(len(d))]
				note("mut:truncate")
			}
		case 1: // flip a byte
			if len(d) > 0 {
				d[rng.Intn(len(d))] = junk[rng.Intn(len(junk))]
				note("mut:replace-byte")
			}
		case 2: // insert
			p := rng.Intn(len(d) + 1)
			d = append(d[:p], append([]byte{junk[rng.Intn(len(junk))]}, d[p:]...)...)
			note("mut:insert-byte")
		case 3: // delete
			if len(d) > 0 {
				p := rng.Intn(len(d))
				d = append(d[:p], d[p+1:]...)
				note("mut:delete-byte")
			}
		case 4: // drop a comma (wrong field count / broken JSON)
			if p := bytes.IndexByte(d[rng.Intn(len(d)+1):], ','); p >= 0 && len(d) > 0 {
				q := bytes.IndexByte(d, ',')
				if q >= 0 {
					d = append(d[:q], d[q+1:]...)
					note("mut:drop-separator")
				}
			}
		case 5: // wrong type
			for _, pat := range [][]byte{[]byte("1"), []byte("true"), []byte("2020")} {
				if p := bytes.Index(d, pat); p >= 0 && rng.Intn(2) == 0 {
					d = append(d[:p], append([]byte("oops"), d[p+len(pat):]...)...)
					note("mut:wrong-type")
					break
				}
			}
		case 6: // duplicate a chunk
			if len(d) > 2 {
				a := rng.Intn(len(d) - 1)
				b := a + 1 + rng.Intn(len(d)-a-1)
				d = append(d[:b], append(append([]byte{}, d[a:b]...), d[b:]...)...)
				note("mut:duplicate-chunk")
			}
		case 7: // empty
			d = nil
			note("mut:empty")
		case 8: // wrong top-level value / garbage
			d = [][]byte{[]byte(`{"detail":"Not found."}`), []byte(`5`), []byte(`"text"`), []byte(`null`), []byte(`[[1,2],[3]]`), []byte(`<html>502</html>`), []byte("a\nb,c\nd,e,f\n"), []byte("\"unterminated")}[rng.Intn(8)]
			note("mut:wrong-top-level")
		}
	}
	return d
}

// C19: malformed external data never panics, hangs or leaks.
type c19 struct{}

func init() { register(c19{}) }

func (c19) ID() string { return "C19" }

func (c19) Rule() string {
	return "case = (reader: CSV with header / CSV without header for three row shapes, JSON stream, Tiingo GetSince, Tiingo LastDate, file reads; a valid document with 0-3 drawn faults: cut at any byte, replaced/inserted/deleted bytes, dropped separators, wrong types, duplicated chunks, empty, wrong top-level value; delivery in drawn fragments incl. 1-byte and 0-byte reads with an optional read error at any offset; HTTP status, transport error, body error mid-way; missing file / directory; scheduling policy+seed); " +
		"oracle: no task panics, the stream closes, empty census, delivered records = an independent standard-library decode of the longest well-formed prefix, non-200 / transport error / unreadable file => error; " +
		"a cell (reader, fault-kind set, fragment class, status class, policy) is non-trivial when at least one fault was applied; distinct_nontrivial counts distinct cells"
}

func (c19) Components() (real, stub []string) {
	return []string{"helper.Csv.ReadFromReader/ReadFromFile, helper.JSONToChan, asset.TiingoRepository, asset.FileSystemRepository (AST-instrumented copy)", "encoding/csv, encoding/json, net/http client", "the OS file system (a fresh directory per run)"},
		[]string{"simulated network: http.DefaultTransport replaced by a scripted RoundTripper (status, body, transport error, body error at an offset)", "FragReader byte source", "consumer task", "scheduler: simrt controller"}
}

var c19Readers = []string{"csv-header:A", "csv-header:B", "csv-header:S", "csv-header:N", "csv-noheader:A", "csv-noheader:B", "csv-noheader:S", "csv-noheader:N", "json", "tiingo-getsince", "tiingo-lastdate", "file", "csv-header:T", "csv-noheader:T", "csv-header:D", "csv-noheader:D"}

func (c19) Gen(rng *rand.Rand, tier string, k int) *Case {
	c := &Case{Family: "ext", Entity: c19Readers[rng.Intn(len(c19Readers))]}
	n := rng.Intn(6)
	if rng.Intn(15) == 0 {
		n = 70 + rng.Intn(150) // more records than any read-ahead buffer: a fault early in a long document
	}
	var doc []byte
	switch c.Entity {
	case "json":
		vals := make([]jsonRow, n)
		for i := range vals {
			vals[i] = jsonRow{S: strPool[rng.Intn(len(strPool))], F: rng.NormFloat64(), I: rng.Int63n(1000), T: epoch.AddDate(0, 0, i)}
		}
		doc, _ = json.Marshal(vals)
	case "tiingo-getsince":
		doc = validTiingo(rng, n)
	case "tiingo-lastdate":
		doc, _ = json.Marshal(asset.TiingoMeta{Ticker: "A", Name: "a", StartDate: epoch, EndDate: epoch.AddDate(0, 0, 10+n)})
	case "file":
		doc = validCsv(rng, "S", true, n)
	default:
		doc = validCsv(rng, c.Entity[len(c.Entity)-1:], c.Entity[:10] == "csv-header", n)
	}
	c.Doc = mutate(rng, doc, nil)
	if (c.Entity == "json" || c.Entity == "tiingo-getsince" || c.Entity == "tiingo-lastdate") && rng.Intn(10) == 0 {
		// a document that starts with white space (pretty-printed, a proxy's blank line): still the same JSON
		c.Doc = append([]byte([]string{" ", "\n", "\r\n\t", "  \n  "}[rng.Intn(4)]), c.Doc...)
	}
	switch rng.Intn(4) {
	case 0:
	case 1:
		c.Frag = []int{1}
	default:
		for i := 0; i < 1+rng.Intn(4); i++ {
			c.Frag = append(c.Frag, rng.Intn(9))
		}
		c.Frag = append(c.Frag, 1+rng.Intn(64))
	}
	if rng.Intn(4) == 0 {
		c.Faults = append(c.Faults, FaultSpec{Kind: "read-error", At: rng.Intn(len(c.Doc) + 1)})
	}
	c.Param = []int{200, rng.Intn(2)}
	if c.Entity == "tiingo-getsince" || c.Entity == "tiingo-lastdate" {
		switch rng.Intn(6) {
		case 0:
			c.Param[0] = []int{201, 204, 301, 302, 400, 401, 403, 404, 429, 500, 502, 503}[rng.Intn(12)]
		case 1:
			c.Faults = append(c.Faults, FaultSpec{Kind: "transport-error"})
		}
	}
	if c.Entity == "file" {
		c.Mode = []string{"present", "present", "missing", "directory", "symlink-to-directory", "symlink-to-file"}[rng.Intn(6)]
		c.Faults = nil
		if (c.Mode == "present" || c.Mode == "symlink-to-file") && rng.Intn(3) == 0 {
			// the disk returns an I/O error after k bytes of the file, on every open
			c.Faults = []FaultSpec{{Kind: "fs-read-budget", Name: ".csv", At: rng.Intn(len(c.Doc) + 1)}}
		}
	}
	if (c.Entity == "json" || c.Entity == "tiingo-getsince") && rng.Intn(40) == 0 {
		c.Pad = []int{70_000, 1_100_000, 2_300_000}[rng.Intn(3)]
		c.Faults = nil
	}
	c.Policy = genPolicy(rng)
	return c
}

func (c19) Shrinks(c *Case) []*Case {
	var out []*Case
	if len(c.Frag) > 0 {
		d := *c
		d.Frag = nil
		out = append(out, &d)
	}
	if c.Pad > 0 {
		d := *c
		d.Pad = c.Pad / 2
		out = append(out, &d)
	}
	for i := range c.Faults {
		d := *c
		d.Faults = append(append([]FaultSpec{}, c.Faults[:i]...), c.Faults[i+1:]...)
		out = append(out, &d)
	}
	// drop lines / halves / single bytes of the document
	if n := len(c.Doc); n > 0 {
		for _, cut := range [][2]int{{n / 2, n}, {0, n / 2}, {n - 1, n}, {0, 1}} {
			if cut[0] < cut[1] {
				d := *c
				d.Doc = append(append([]byte{}, c.Doc[:cut[0]]...), c.Doc[cut[1]:]...)
				out = append(out, &d)
			}
		}
		if p := bytes.IndexByte(c.Doc, '\n'); p >= 0 && p+1 < n {
			q := bytes.IndexByte(c.Doc[p+1:], '\n')
			if q >= 0 {
				d := *c
				d.Doc = append(append([]byte{}, c.Doc[:p+1]...), c.Doc[p+1+q+1:]...)
				out = append(out, &d)
			}
		}
	}
	return out
}

func statusClass(code int) string {
	if code == 200 {
		return "200"
	}
	return fmt.Sprintf("%dxx", code/100)
}

func (c19) Run(c *Case, st *Stats) []Violation {
	var vs []Violation
	regime := "well-formed-or-not"
	add := func(kind, detail string) {
		vs = append(vs, Violation{Prop: "C19", Entity: c.Entity, Kind: kind, Regime: regime, Detail: fmt.Sprintf("%s doc=%q frag=%v faults=%v status=%v mode=%s: %s", c.Entity, trunc(string(c.Doc), 160), c.Frag, c.Faults, c.Param, c.Mode, detail)})
	}
	// large bodies: JSON whitespace between elements changes nothing for a decoder but moves the
	// following records past any size-dependent behaviour (buffers, caps)
	if c.Pad > 0 && (c.Entity == "json" || c.Entity == "tiingo-getsince") {
		d := *c
		pos := bytes.IndexByte(c.Doc, ',')
		if pos < 0 {
			pos = bytes.IndexByte(c.Doc, '[')
		}
		if pos >= 0 {
			d.Doc = append(append(append([]byte{}, c.Doc[:pos+1]...), bytes.Repeat([]byte(" \n"), c.Pad/2)...), c.Doc[pos+1:]...)
			d.Pad = 0
			if len(d.Frag) > 0 {
				d.Frag = []int{4096, 1, 8192}
			}
			st.Faults["body-padded-beyond-1MiB"]++
			return c19{}.Run(&d, st)
		}
	}
	errAt := -1
	transportErr := false
	for _, f := range c.Faults {
		switch f.Kind {
		case "read-error":
			errAt = min(f.At, len(c.Doc))
		case "transport-error":
			transportErr = true
		}
	}
	newReader := func() *FragReader {
		return &FragReader{Data: c.Doc, Frag: c.Frag, ErrAt: errAt, Err: errInjected}
	}
	status := 200
	if len(c.Param) > 0 {
		status = c.Param[0]
	}
	fsReadAt := -1
	for _, f := range c.Faults {
		if f.Kind == "fs-read-budget" {
			fsReadAt = min(f.At, len(c.Doc))
		}
	}
	plan := fsPlan(c.Faults)
	var compare func() // runs after the simulation, compares delivered with reference
	var lastTransport *simTransport
	clientDone := false
	var srcReader *FragReader
	dir := ""
	oldTransport := http.DefaultTransport
	defer func() { http.DefaultTransport = oldTransport }()
	out := simulate(SimOpts{Policy: c.Policy, Record: c.Record, MaxSteps: 2_000_000}, func(s *simrt.Sim) {
		if plan != nil {
			s.SetFaults(plan)
		}
		simrt.GoKind("client", func() {
			defer func() { clientDone = true }()
			switch c.Entity {
			case "csv-header:A":
				compare = csvCase[shapeA](c, true, newReader, &srcReader, add)
			case "csv-header:B":
				compare = csvCase[shapeB](c, true, newReader, &srcReader, add)
			case "csv-header:S":
				compare = csvCase[asset.Snapshot](c, true, newReader, &srcReader, add)
			case "csv-header:N":
				compare = csvCase[shapeN](c, true, newReader, &srcReader, add)
			case "csv-noheader:N":
				compare = csvCase[shapeN](c, false, newReader, &srcReader, add)
			case "csv-header:D":
				compare = csvCase[shapeD](c, true, newReader, &srcReader, add)
			case "csv-noheader:D":
				compare = csvCase[shapeD](c, false, newReader, &srcReader, add)
			case "csv-header:T":
				compare = csvCase[shapeT](c, true, newReader, &srcReader, add)
			case "csv-noheader:T":
				compare = csvCase[shapeT](c, false, newReader, &srcReader, add)
			case "csv-noheader:A":
				compare = csvCase[shapeA](c, false, newReader, &srcReader, add)
			case "csv-noheader:B":
				compare = csvCase[shapeB](c, false, newReader, &srcReader, add)
			case "csv-noheader:S":
				compare = csvCase[asset.Snapshot](c, false, newReader, &srcReader, add)
			case "json":
				srcReader = newReader()
				ch := helper.JSONToChan[jsonRow](srcReader)
				var got []jsonRow
				for {
					consYield()
					v, ok := <-ch
					if !ok {
						break
					}
					got = append(got, v)
				}
				compare = func() {
					want := refJSON[jsonRow](newReaderPlain(c, errAt))
					if !reflect.DeepEqual(normJSON(got), normJSON(want)) {
						add("wrong-records", fmt.Sprintf("delivered %d records %v, the well-formed prefix has %d %v", len(got), got, len(want), want))
					}
				}
			case "tiingo-getsince", "tiingo-lastdate":
				tr := &simTransport{status: status, body: newReader(), clen: -1}
				lastTransport = tr
				if len(c.Param) > 1 && c.Param[1] == 1 {
					tr.clen = int64(len(c.Doc)) // a server that announces the length (as most do)
				}
				srcReader = tr.body
				if transportErr {
					tr.err = errors.New("simulated transport failure: connection reset")
				}
				http.DefaultTransport = tr
				repo := asset.NewTiingoRepository("key")
				if c.Seed%2 == 0 {
					// built the way the command-line tools build it: by name through the factory
					if r, err := asset.NewRepository(asset.TiingoRepositoryBuilderName, "key"); err == nil {
						repo = r.(*asset.TiingoRepository)
					} else {
						add("constructor-error", err.Error())
						return
					}
				}
				repo.BaseURL = "http://tiingo.sim"
				if c.Entity == "tiingo-lastdate" {
					d, err := repo.LastDate("A")
					compare = func() {
						var meta asset.TiingoMeta
						body, rerr := io.ReadAll(newReaderPlain(c, errAt))
						wantErr := transportErr || status != 200 || rerr != nil || json.Unmarshal(body, &meta) != nil
						if wantErr && err == nil {
							add("error-not-reported", fmt.Sprintf("LastDate returned %v and no error", d))
						} else if !wantErr && (err != nil || !d.Equal(meta.EndDate)) {
							add("wrong-records", fmt.Sprintf("LastDate returned %v, %v; the document says %v", d, err, meta.EndDate))
						}
					}
					return
				}
				ch, err := repo.GetSince("A", epoch)
				if transportErr || status != 200 {
					if err == nil {
						add("error-not-reported", fmt.Sprintf("GetSince returned a stream and no error (status %d, transport error %v)", status, transportErr))
						simrt.GoKind("drain", func() { helper.Drain(ch) })
					}
					return
				}
				if err != nil {
					add("unexpected-error", fmt.Sprintf("GetSince: %v", err))
					return
				}
				var got []*asset.Snapshot
				for {
					consYield()
					v, ok := <-ch
					if !ok {
						break
					}
					got = append(got, v)
				}
				compare = func() {
					var want []*asset.Snapshot
					for _, e := range refJSON[asset.TiingoEndOfDay](newReaderPlain(c, errAt)) {
						want = append(want, e.ToSnapshot())
					}
					if !reflect.DeepEqual(got, want) && !(len(got) == 0 && len(want) == 0) {
						add("wrong-records", fmt.Sprintf("delivered %d snapshots, the well-formed prefix has %d", len(got), len(want)))
					}
				}
			case "file":
				dir = runDir()
				path := filepath.Join(dir, "A.csv")
				switch c.Mode {
				case "present":
					os.WriteFile(path, c.Doc, 0o644)
				case "directory":
					os.Mkdir(path, 0o755)
				case "symlink-to-directory":
					os.Mkdir(filepath.Join(dir, "real"), 0o755)
					os.Symlink(filepath.Join(dir, "real"), path)
				case "symlink-to-file":
					os.WriteFile(filepath.Join(dir, "real.dat"), c.Doc, 0o644)
					os.Symlink(filepath.Join(dir, "real.dat"), path)
				}
				repo := asset.NewFileSystemRepository(dir)
				ch, err := repo.Get("A")
				_, err2 := helper.ReadFromCsvFile[asset.Snapshot](filepath.Join(dir, "missing.csv"), true)
				if err2 == nil {
					add("error-not-reported", "ReadFromCsvFile of a missing file returned no error")
				}
				if c.Mode == "missing" || c.Mode == "directory" || c.Mode == "symlink-to-directory" {
					if err == nil {
						var got []*asset.Snapshot
						for {
							consYield()
							v, ok := <-ch
							if !ok {
								break
							}
							got = append(got, v)
						}
						add("error-not-reported:"+c.Mode, fmt.Sprintf("Get of an unreadable file (%s) returned a stream with %d snapshots and no error", c.Mode, len(got)))
					}
					if _, err := repo.LastDate("A"); err == nil {
						add("error-not-reported:"+c.Mode, "LastDate of an unreadable file returned no error")
					}
					return
				}
				if err != nil {
					add("unexpected-error", fmt.Sprintf("Get of an existing file: %v", err))
					return
				}
				var got []*asset.Snapshot
				for {
					consYield()
					v, ok := <-ch
					if !ok {
						break
					}
					got = append(got, v)
				}
				ld, lderr := repo.LastDate("A")
				// the same file again through GetSince from the first day of the data, after its time
				// stamp has been set back to 2001 (a file's modification time says nothing about its rows)
				var since []*asset.Snapshot
				sinceTried, sinceErr := false, error(nil)
				if c.Seed%2 == 0 && fsReadAt < 0 {
					old := time.Date(2001, 2, 3, 4, 5, 6, 0, time.UTC)
					os.Chtimes(path, old, old)
					sinceTried = true
					var ch2 <-chan *asset.Snapshot
					if ch2, sinceErr = repo.GetSince("A", epoch); sinceErr == nil {
						for {
							consYield()
							v, ok := <-ch2
							if !ok {
								break
							}
							since = append(since, v)
						}
					}
				}
				compare = func() {
					var src io.Reader = bytes.NewReader(c.Doc)
					if fsReadAt >= 0 {
						// an I/O error after fsReadAt bytes of the file: the well-formed prefix ends there
						src = &FragReader{Data: c.Doc, ErrAt: fsReadAt, Err: errInjected}
					}
					want := refCsv[asset.Snapshot](src, true)
					if ok, why := sameSnapshots(got, want); !ok {
						add("wrong-records", why)
					}
					if sinceTried {
						var wantSince []*asset.Snapshot
						for _, sn := range want {
							if !sn.Date.Before(epoch) {
								wantSince = append(wantSince, sn)
							}
						}
						if sinceErr != nil {
							add("unexpected-error", fmt.Sprintf("GetSince of an existing file: %v", sinceErr))
						} else if ok, why := sameSnapshots(since, wantSince); !ok {
							add("wrong-records", "GetSince from the first day, file stamped 2001: "+why)
						}
					}
					if len(want) == 0 && lderr == nil {
						add("error-not-reported", fmt.Sprintf("LastDate of a file without a well-formed snapshot returned %v and no error", ld))
					} else if len(want) > 0 && (lderr != nil || !ld.Equal(want[len(want)-1].Date)) {
						add("wrong-records", fmt.Sprintf("LastDate returned %v, %v; the last well-formed snapshot is dated %v", ld, lderr, want[len(want)-1].Date))
					}
				}
			}
		})
	})
	if dir != "" {
		os.RemoveAll(dir)
	}
	st.noteSim(out)
	for k, v := range plan.FiredKinds() {
		st.Faults[k] += v
	}
	// evidence
	faulted := len(c.Faults) > 0 || status != 200 || c.Mode == "missing" || c.Mode == "directory" || c.Mode == "symlink-to-directory"
	if errAt >= 0 {
		if srcReader != nil && srcReader.Failed {
			st.Faults["read-error-fired"]++
		}
	}
	if transportErr {
		st.Faults["http-transport-error"]++
	}
	if status != 200 {
		st.Faults["http-non-200-status"]++
	}
	if c.Mode == "missing" || c.Mode == "directory" || c.Mode == "symlink-to-directory" {
		st.Faults["unreadable-file:"+c.Mode]++
	}
	if srcReader != nil {
		st.Faults["fragmented-reads"] += srcReader.Reads
	}
	wellFormed := isWellFormed(c)
	if !wellFormed {
		st.Faults["malformed-document"]++
		faulted = true
	}
	if faulted {
		st.cell(c.Entity, fmt.Sprint(wellFormed), fmt.Sprint(len(c.Faults)), fragClass(c.Frag), statusClass(status), c.Mode, c.Policy.Name)
	}
	if out.Err != nil {
		return nil
	}
	if len(out.Panics) > 0 {
		add("panic", fmt.Sprint(out.Panics))
		return vs
	}
	if !clientDone {
		add("hang", "the stream never closed; "+stuckSummary(out.Stuck))
		return vs
	}
	if lastTransport != nil && lastTransport.calls > maxRequestsPerCall {
		add("hang", fmt.Sprintf("one call sent more than %d requests to a server that kept answering %d: it does not give up", maxRequestsPerCall, lastTransport.status))
		return vs
	}
	if compare != nil && len(vs) == 0 {
		compare()
		st.Probes["records-compared-with-reference-decode"]++
	}
	if len(vs) == 0 {
		if lib := out.LibStuck(); len(lib) > 0 {
			add("leak", stuckSummary(lib))
		}
	}
	return vs
}

func newReaderPlain(c *Case, errAt int) io.Reader {
	return &FragReader{Data: c.Doc, Frag: c.Frag, ErrAt: errAt, Err: errInjected}
}

func isWellFormed(c *Case) bool {
	switch c.Entity {
	case "json", "tiingo-getsince":
		var v []json.RawMessage
		return json.Unmarshal(c.Doc, &v) == nil
	case "tiingo-lastdate":
		var m asset.TiingoMeta
		return json.Unmarshal(c.Doc, &m) == nil
	}
	_, err := csv.NewReader(bytes.NewReader(c.Doc)).ReadAll()
	return err == nil
}

func normJSON(v []jsonRow) []string {
	var r []string
	for _, x := range v {
		r = append(r, fmt.Sprintf("%q|%v|%d|%v|%s|%v", x.S, x.F, x.I, x.B, x.T.UTC().Format(time.RFC3339Nano), x.L))
	}
	return r
}

func sameSnapshots(got, want []*asset.Snapshot) (bool, string) {
	if len(got) != len(want) {
		return false, fmt.Sprintf("delivered %d snapshots, the well-formed prefix has %d", len(got), len(want))
	}
	for i := range got {
		a, b := got[i], want[i]
		if !a.Date.Equal(b.Date) || a.Open != b.Open || a.High != b.High || a.Low != b.Low || a.Close != b.Close || a.Volume != b.Volume {
			return false, fmt.Sprintf("snapshot %d: delivered %+v, reference %+v", i, *a, *b)
		}
	}
	return true, ""
}

// csvCase reads the document through the codec under test and returns the comparison with the
// reference decode.
func csvCase[T any](c *Case, header bool, newReader func() *FragReader, src **FragReader, add func(kind, detail string)) func() {
	codec, err := helper.NewCsv[T](header)
	if err != nil {
		add("constructor-error", err.Error())
		return nil
	}
	*src = newReader()
	ch := codec.ReadFromReader(*src)
	var got []*T
	for {
		consYield()
		v, ok := <-ch
		if !ok {
			break
		}
		got = append(got, v)
	}
	// the same codec value is used again afterwards (a caller reading the next file with it): a
	// damaged document must not leave anything behind that changes or blocks the next read
	var again []*T
	reread := c.Seed%3 == 0
	if reread {
		ch2 := codec.ReadFromReader(newReader())
		for {
			consYield()
			v, ok := <-ch2
			if !ok {
				break
			}
			again = append(again, v)
		}
	}
	return func() {
		if reread {
			same := len(again) == len(got)
			for i := 0; same && i < len(got); i++ {
				same = fmt.Sprintf("%+v", *got[i]) == fmt.Sprintf("%+v", *again[i])
			}
			if !same {
				add("second-read-differs", fmt.Sprintf("the same codec value delivered %d records the first time and %d the second time for the same bytes", len(got), len(again)))
				return
			}
		}
		want := refCsv[T](newReader(), header)
		if len(got) != len(want) {
			add("wrong-records", fmt.Sprintf("delivered %d records, the well-formed prefix has %d", len(got), len(want)))
			return
		}
		for i := range got {
			if fmt.Sprintf("%+v", *got[i]) != fmt.Sprintf("%+v", *want[i]) {
				add("wrong-records", fmt.Sprintf("record %d: delivered %+v, reference %+v", i, *got[i], *want[i]))
				return
			}
		}
	}
}
