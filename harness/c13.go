package harness

import (
	"fmt"
	"math"
	"math/rand"
	"os"
	"path/filepath"
	"regexp"
	"sort"
	"strconv"
	"strings"
	"sync"
	"time"

	"github.com/cinar/indicator/v2/asset"
	"github.com/cinar/indicator/v2/backtest"
	"github.com/cinar/indicator/v2/helper"
	"github.com/cinar/indicator/v2/strategy"
	"simrt"
)

// scriptedStrategy is a streaming stub: Buy at position K, Sell at position 2K+5, Hold otherwise.
// Cheap, and neighbouring K give outcomes that differ only slightly (ranking needs that).
type scriptedStrategy struct{ K int }

func (s *scriptedStrategy) Name() string { return fmt.Sprintf("Scripted(%d)", s.K) }
func (s *scriptedStrategy) Compute(c <-chan *asset.Snapshot) <-chan strategy.Action {
	out := make(chan strategy.Action)
	simrt.Go(func() {
		defer close(out)
		for i := 0; ; i++ {
			simrt.Yield(-16, "scripted-recv")
			if _, ok := <-c; !ok {
				return
			}
			a := strategy.Hold
			if i == s.K {
				a = strategy.Buy
			} else if i == 2*s.K+5 {
				a = strategy.Sell
			}
			simrt.Yield(-17, "scripted-send")
			out <- a
		}
	})
	return out
}
func (s *scriptedStrategy) Report(c <-chan *asset.Snapshot) *helper.Report {
	snaps := helper.Duplicate(c, 3)
	dates := asset.SnapshotsAsDates(snaps[0])
	closings := asset.SnapshotsAsClosings(snaps[1])
	actions, outcomes := strategy.ComputeWithOutcome(s, snaps[2])
	r := helper.NewReport(s.Name(), dates)
	r.AddChart()
	r.AddColumn(helper.NewNumericReportColumn("Close", closings))
	r.AddColumn(helper.NewAnnotationReportColumn(strategy.ActionsToAnnotations(actions)))
	r.AddColumn(helper.NewNumericReportColumn("Outcome", outcomes), 1)
	return r
}

// taggedStrategy delegates to the wrapped strategy and carries its position in the run's list.
type taggedStrategy struct {
	strategy.Strategy
	idx int
}

type btEvent struct {
	Seq   int64
	Kind  string // begin asset-begin write asset-end end
	Asset string
	Strat string
	Inst  strategy.Strategy
	Acts  []strategy.Action
	Outs  []float64
	NSnap int
}

// RecordingReport records the report protocol.
type RecordingReport struct {
	mu     sync.Mutex
	s      *simrt.Sim
	Events []btEvent
}

func (r *RecordingReport) rec(e btEvent) {
	r.mu.Lock()
	e.Seq = r.s.Seq()
	r.Events = append(r.Events, e)
	r.mu.Unlock()
}
func (r *RecordingReport) Begin(names []string, st []strategy.Strategy) error {
	r.rec(btEvent{Kind: "begin"})
	return nil
}
func (r *RecordingReport) AssetBegin(name string, st []strategy.Strategy) error {
	r.rec(btEvent{Kind: "asset-begin", Asset: name})
	return nil
}
func (r *RecordingReport) Write(name string, cs strategy.Strategy, snaps <-chan *asset.Snapshot, actions <-chan strategy.Action, outcomes <-chan float64) error {
	e := btEvent{Kind: "write", Asset: name, Strat: cs.Name(), Inst: cs}
	// three independent readers, as a report is free to consume the streams in any order
	done := make(chan struct{}, 2)
	simrt.GoKind("stub", func() {
		for {
			simrt.Yield(-18, "report-recv")
			if _, ok := <-snaps; !ok {
				break
			}
			e.NSnap++
		}
		done <- struct{}{}
	})
	simrt.GoKind("stub", func() {
		for {
			simrt.Yield(-18, "report-recv")
			v, ok := <-outcomes
			if !ok {
				break
			}
			e.Outs = append(e.Outs, v)
		}
		done <- struct{}{}
	})
	for {
		simrt.Yield(-18, "report-recv")
		a, ok := <-actions
		if !ok {
			break
		}
		e.Acts = append(e.Acts, a)
	}
	simrt.Yield(-19, "report-wait")
	<-done
	simrt.Yield(-19, "report-wait")
	<-done
	r.rec(e)
	return nil
}
func (r *RecordingReport) AssetEnd(name string) error {
	r.rec(btEvent{Kind: "asset-end", Asset: name})
	return nil
}
func (r *RecordingReport) End() error { r.rec(btEvent{Kind: "end"}); return nil }

// C13: Backtest reports every asset x strategy once, for any worker count.
type c13 struct{}

func init() { register(c13{}) }

func (c13) ID() string { return "C13" }

func (c13) Rule() string {
	return "case = (1-5 assets in an in-memory repository with snapshot dates around the simulated now so that the look-back window cuts inside the data, incl. an empty and a missing asset; names explicit or taken from the repository in PRNG order; 1-4 strategies: real cheap ones and scripted stubs with outcomes less than one percentage point apart; workers 1..16; report implementation: recording stub / DataReport / HTMLReport with and without per-strategy reports; scheduling policy+seed); " +
		"oracle: recorded protocol order (Begin first, End last, AssetBegin < one Write per strategy < AssetEnd), actions/outcomes handed to the report equal a direct ComputeWithOutcome on the windowed snapshots, DataReport results and parsed <asset>.html / index.html rows complete, equal to direct evaluation and in non-increasing outcome order, no panic, Run returns; " +
		"a cell (report implementation, workers class, number of strategies, asset edge kinds, policy) is non-trivial when workers > 1 under a schedule with non-FIFO decisions, or an edge asset (empty, missing, window-cut) is present; distinct_nontrivial counts distinct cells"
}

func (c13) Components() (real, stub []string) {
	return []string{"backtest.Backtest, backtest.DataReport, backtest.HTMLReport, strategy.ComputeWithOutcome, real strategies (AST-instrumented copy)", "text/template", "the OS file system (HTML output in a fresh directory per run)"},
		[]string{"simulated clock for time.Now (look-back window)", "RecordingReport: protocol-recording stub of backtest.Report", "scripted stub strategies", "FaultRepo-ordered Assets()", "scheduler: simrt controller"}
}

// asset names: tickers carry punctuation in practice; names that differ only by punctuation
// must still be reported (and written to files) separately
var c13Names = []string{"A", "B:1", "B_1", "C*x", "D"}

var c13Strats = []string{"scripted", "scripted", "strategy.BuyAndHold", "trend.Macd", "momentum.Rsi", "trend.Apo", "volume.ForceIndex", "trend.Kdj"}

func (c13) Gen(rng *rand.Rand, tier string, k int) *Case {
	c := &Case{Family: "backtest", Impl: []string{"recording", "data", "html", "html-reports"}[rng.Intn(4)]}
	c.Entity = "backtest.Backtest>" + c.Impl
	lastDays := 5 + rng.Intn(40)
	if rng.Intn(40) == 0 {
		lastDays = 260 + rng.Intn(160) // a look-back of more than a year of daily bars
	}
	allHistory := rng.Intn(40) == 0
	c.Param = []int{lastDays}
	na := 1 + rng.Intn(5)
	for i := 0; i < na; i++ {
		n := 3 + rng.Intn(lastDays+10)
		a := AssetSpec{Name: c13Names[i], SrcN: n, SrcFrom: -(rng.Intn(lastDays + 12)), Seed: rng.Int63n(1 << 30)}
		switch rng.Intn(8) {
		case 0:
			a.SrcN = 0
		case 1:
			a.SrcAbsent = true
		}
		c.Assets = append(c.Assets, a)
	}
	ns := 1 + rng.Intn(4)
	usedK := 0
	used := map[string]bool{}
	for i := 0; i < ns; i++ {
		if rng.Intn(4) == 0 {
			// any strategy of the catalogue, decorated or compound: one instance serves all assets
			c.Subs = append(c.Subs, genStratSpec(rng, 1, false))
			continue
		}
		e := c13Strats[rng.Intn(len(c13Strats))]
		used[e] = true // the same strategy type may appear twice (differently configured, possibly under the same name)
		s := SubSpec{Entity: e}
		if e == "scripted" {
			s.Cfg = []int{usedK}
			usedK++
		} else if e != "strategy.BuyAndHold" {
			s.Scale = []int{3, 4, 6}[rng.Intn(3)]
		}
		c.Subs = append(c.Subs, s)
	}
	if allHistory {
		// "everything there is": a look-back of centuries (the data still lies around the simulated now)
		c.Param[0] = []int{110000, 150000, 200000, 36500}[rng.Intn(4)]
	}
	c.Workers = []int{1, 1, 2, 3, 4, 8, 16}[rng.Intn(7)]
	if rng.Intn(2) == 0 {
		c.Mode = "explicit"
		for _, a := range c.Assets {
			c.Names = append(c.Names, a.Name)
		}
		rng.Shuffle(len(c.Names), func(i, j int) { c.Names[i], c.Names[j] = c.Names[j], c.Names[i] })
		if len(c.Names) >= 2 && rng.Intn(3) == 0 {
			// only some of the repository's assets are asked for - possibly only names it does not have
			var some, absent []string
			for _, a := range c.Assets {
				if a.SrcAbsent {
					absent = append(absent, a.Name)
				}
			}
			if len(absent) > 0 && len(absent) < len(c.Assets) && rng.Intn(2) == 0 {
				some = absent
			} else {
				some = c.Names[:1+rng.Intn(len(c.Names)-1)]
			}
			c.Names = append([]string{}, some...)
		}
	} else {
		c.Mode = "from-repository"
		c.Perm = rng.Perm(na)
	}
	if rng.Intn(5) == 0 {
		c.Delay = 2 // number of consecutive runs on the same Backtest/report (field reused)
		if rng.Intn(2) == 0 {
			c.Param = append(c.Param, 5+rng.Intn(40)) // the second run looks back another number of days
		}
	}
	for i := range c.Assets {
		if c.Assets[i].SrcN >= 2 && rng.Intn(8) == 0 {
			c.Assets[i].SrcSwap = 1 + rng.Intn(c.Assets[i].SrcN-1)
		}
	}
	if len(c.Assets) >= 2 && rng.Intn(6) == 0 {
		c.Faults = append(c.Faults, FaultSpec{Kind: "getsince-fail", Name: c.Assets[rng.Intn(len(c.Assets))].Name})
	}
	if c.Impl == "html-reports" && len(c.Subs) >= 2 && rng.Intn(4) == 0 {
		// fault-injecting configuration: one strategy report cannot be written (its path is taken by
		// a directory), so HTMLReport.Write gives up part-way for that pair
		c.Faults = append(c.Faults, FaultSpec{Kind: "report-file-blocked", At: rng.Intn(len(c.Assets)), N: rng.Intn(len(c.Subs))})
		c.Delay = 0
	}
	c.Policy = genPolicy(rng)
	return c
}

func (c13) Shrinks(c *Case) []*Case {
	var out []*Case
	if len(c.Assets) > 1 {
		for i := range c.Assets {
			d := *c
			d.Assets = append(append([]AssetSpec{}, c.Assets[:i]...), c.Assets[i+1:]...)
			d.Names = nil
			for _, n := range c.Names {
				if n != c.Assets[i].Name {
					d.Names = append(d.Names, n)
				}
			}
			out = append(out, &d)
		}
	}
	if len(c.Subs) > 1 {
		for i := range c.Subs {
			d := *c
			d.Subs = append(append([]SubSpec{}, c.Subs[:i]...), c.Subs[i+1:]...)
			out = append(out, &d)
		}
	}
	if c.Workers > 1 {
		d := *c
		d.Workers = c.Workers / 2
		out = append(out, &d)
	}
	for i, a := range c.Assets {
		if a.SrcN > 1 {
			d := *c
			d.Assets = append([]AssetSpec{}, c.Assets...)
			d.Assets[i].SrcN = a.SrcN / 2
			out = append(out, &d)
		}
	}
	return out
}

// notOneDocument: a report file is exactly one HTML document - it ends with its closing tag and
// has no second one (what is left of an older, longer file after an overwrite without truncation).
func notOneDocument(b []byte) string {
	t := strings.TrimSpace(string(b))
	if n := strings.Count(t, "</html>"); n != 1 {
		return fmt.Sprintf("%d closing html tags in %d bytes", n, len(b))
	}
	if !strings.HasSuffix(t, "</html>") {
		return fmt.Sprintf("%d bytes follow the closing html tag", len(t)-strings.Index(t, "</html>")-len("</html>"))
	}
	return ""
}

func makeBtStrategy(s SubSpec) strategy.Strategy {
	if s.Entity == "scripted" {
		return &scriptedStrategy{K: s.Cfg[0]}
	}
	return buildStrategy(s)
}

var htmlRowRe = regexp.MustCompile(`(?s)<tr>\s*<td><a href="[^"]*">([^<]*)</a></td>(.*?)</tr>`)
var pctRe = regexp.MustCompile(`(-?[0-9]+\.[0-9][0-9])%`)
var tdRe = regexp.MustCompile(`(?s)<td>([^<]*)</td>`)

type htmlRow struct {
	Key     string
	Second  string
	Outcome float64
}

func parseHTMLRows(doc string) []htmlRow {
	var rows []htmlRow
	for _, m := range htmlRowRe.FindAllStringSubmatch(doc, -1) {
		r := htmlRow{Key: m[1]}
		if p := pctRe.FindStringSubmatch(m[2]); p != nil {
			r.Outcome, _ = strconv.ParseFloat(p[1], 64)
		} else {
			r.Outcome = math.NaN()
		}
		if t := tdRe.FindStringSubmatch(m[2]); t != nil {
			r.Second = t[1]
		}
		rows = append(rows, r)
	}
	return rows
}

func (c13) Run(c *Case, st *Stats) []Violation {
	var vs []Violation
	add := func(kind, regime, detail string) {
		vs = append(vs, Violation{Prop: "C13", Entity: c.Entity, Kind: kind, Regime: regime,
			Detail: fmt.Sprintf("%s workers=%d lastDays=%d names=%s%v assets=%+v strategies=%v: %s", c.Entity, c.Workers, c.Param[0], c.Mode, c.Names, c.Assets, subNames(c.Subs), detail)})
	}
	lastDays := c.Param[0]
	regime := "workers=1"
	if c.Workers > 1 {
		regime = "workers>1"
	}
	dir, repoDir, linkDir := "", "", ""
	blocked := false
	clientDone := false
	var runErr error
	var rec *RecordingReport
	var data *backtest.DataReport
	windowed := map[string][]*asset.Snapshot{}
	present := map[string]bool{}
	var strategies []strategy.Strategy
	var names []string
	out := simulate(SimOpts{Policy: c.Policy, Record: c.Record, MaxSteps: 6_000_000}, func(s *simrt.Sim) {
		simrt.GoKind("client", func() {
			defer func() { clientDone = true }()
			now := simrt.Now()
			since := now.AddDate(0, 0, -lastDays)
			today := now.Truncate(24 * 3600 * 1e9)
			var repo asset.Repository = asset.NewInMemoryRepository()
			if c.Seed%4 == 1 {
				// the assets are CSV files (what cmd/indicator-backtest reads)
				repoDir = runDir()
				repo = asset.NewFileSystemRepository(repoDir)
				st.Faults["file-system-repository"]++
			}
			allByName := map[string][]*asset.Snapshot{}
			for _, a := range c.Assets {
				if a.SrcAbsent {
					continue
				}
				off := lastDays / 2
				if lastDays > 1000 {
					off = 0 // a look-back of centuries: the data lies around now, all of it inside the window
				}
				all := genSnapshots(a.SrcN, int(a.Seed%int64(NumShapes)), a.Seed, today.AddDate(0, 0, a.SrcFrom-a.SrcN+1+off))
				if a.Seed%9 == 0 && len(all) > 0 {
					// the latest bar carries no closing price (reported as 0): it is still a snapshot of the window
					z := *all[len(all)-1]
					z.Close = 0
					all[len(all)-1] = &z
					st.Faults["latest-snapshot-without-a-closing-price"]++
				}
				if k := a.SrcSwap; k > 0 && k < len(all) {
					all[k-1], all[k] = all[k], all[k-1] // stored out of date order (a late correction)
					st.Faults["asset-stored-out-of-date-order"]++
				}
				if err := fill(repo, a.Name, all); err != nil {
					add("setup-error", "-", err.Error())
					return
				}
				if repoDir != "" && c.Seed%8 == 1 {
					// a file as a data provider exports it: an "Adj Close" column after "Close" (columns
					// the snapshot type does not declare are none of the reader's business)
					fp := filepath.Join(repoDir, a.Name+".csv")
					if b, err := os.ReadFile(fp); err == nil {
						lines := strings.Split(strings.TrimRight(string(b), "\n"), "\n")
						for li, ln := range lines {
							cells := strings.Split(ln, ",")
							if len(cells) != 6 {
								continue
							}
							extra := "Adj Close"
							if li > 0 {
								extra = "0.5"
							}
							lines[li] = strings.Join(append(append(append([]string{}, cells[:5]...), extra), cells[5]), ",")
						}
						os.WriteFile(fp, []byte(strings.Join(lines, "\n")+"\n"), 0o644)
						st.Faults["asset-file-with-a-column-named-like-a-field-suffix"]++
					}
				}
				if repoDir != "" && a.Seed%3 == 0 {
					// the file's time stamp says nothing about its rows (unpacked from an archive, copied with
					// preserved times, written by a machine with another clock)
					old := time.Date(2001, 2, 3, 4, 5, 6, 0, time.UTC)
					if os.Chtimes(filepath.Join(repoDir, a.Name+".csv"), old, old) == nil {
						st.Faults["asset-file-with-an-old-modification-time"]++
					}
				}
				if repoDir != "" && a.Seed%5 == 0 {
					// the asset's file is kept elsewhere and linked into the repository directory
					if linkDir == "" {
						linkDir = runDir()
					}
					p, real := filepath.Join(repoDir, a.Name+".csv"), filepath.Join(linkDir, a.Name+".data")
					if os.Rename(p, real) == nil && os.Symlink(real, p) == nil {
						st.Faults["asset-file-is-a-symbolic-link"]++
					}
				}
				present[a.Name] = true
				allByName[a.Name] = all
				for _, sn := range all {
					if !sn.Date.Before(since) {
						windowed[a.Name] = append(windowed[a.Name], sn)
					}
				}
				if len(windowed[a.Name]) < len(all) && len(windowed[a.Name]) > 0 {
					st.Probes["window-cuts-inside-data"]++
				}
			}
			fr := newFaultRepo(repo)
			fr.Order = c.Perm
			for _, f := range c.Faults {
				if f.Kind == "getsince-fail" {
					// the repository fails for this asset with an error that is not "asset not found"
					fr.FailGet[f.Name] = true
					fr.On = true
					present[f.Name] = false
					st.Faults["repository-read-error"]++
				}
			}
			for i, sp := range c.Subs {
				// tagged wrapper: instances of zero-size strategy types are not distinguishable by address
				strategies = append(strategies, &taggedStrategy{Strategy: makeBtStrategy(sp), idx: i})
			}
			var report backtest.Report
			switch c.Impl {
			case "recording":
				rec = &RecordingReport{s: s}
				report = rec
			case "data":
				data = backtest.NewDataReport()
				report = data
			default:
				dir = runDir()
				if c.Seed%3 == 0 {
					// the output directory was used by an earlier, larger run: its files are still there
					stale := []byte("<html>\n" + strings.Repeat("<tr>\n<td><a href=\"old.html\">stale result of an earlier run</a></td>\n<td>99.99%</td>\n</tr>\n", 700) + "</html>\n")
					os.WriteFile(filepath.Join(dir, "index.html"), stale, 0o644)
					for _, a := range c.Assets {
						os.WriteFile(filepath.Join(dir, a.Name+".html"), stale, 0o644)
					}
					st.Faults["output-directory-holds-reports-of-an-earlier-run"]++
				}
				h := backtest.NewHTMLReport(dir)
				h.WriteStrategyReports = c.Impl == "html-reports"
				report = h
				for _, f := range c.Faults {
					if f.Kind != "report-file-blocked" || f.At >= len(c.Assets) || f.N >= len(strategies) {
						continue
					}
					free := 0
					for _, sx := range strategies {
						if sx.Name() != strategies[f.N].Name() {
							free++
						}
					}
					if free == 0 {
						continue // every strategy of the asset would be blocked
					}
					if os.Mkdir(filepath.Join(dir, fmt.Sprintf("%s - %s.html", c.Assets[f.At].Name, strategies[f.N].Name())), 0o755) == nil {
						blocked = true
					}
				}
			}
			bt := backtest.NewBacktest(fr, report)
			bt.Workers = c.Workers
			bt.LastDays = lastDays
			bt.Strategies = strategies
			if c.Mode == "explicit" {
				bt.Names = append([]string{}, c.Names...)
			}
			runErr = bt.Run()
			if runErr == nil && c.Delay == 2 {
				// the same Backtest and report are run again (a scheduled re-run): everything said
				// about a run holds for the second one as well
				if rec != nil {
					rec.mu.Lock()
					rec.Events = nil
					rec.mu.Unlock()
				}
				if len(c.Param) > 1 {
					// the caller changes the look-back between the runs: the second run's window is the new one
					bt.LastDays = c.Param[1]
					since2 := now.AddDate(0, 0, -c.Param[1])
					for n, all := range allByName {
						windowed[n] = nil
						for _, sn := range all {
							if !sn.Date.Before(since2) {
								windowed[n] = append(windowed[n], sn)
							}
						}
					}
					st.Probes["second-run-with-another-look-back"]++
				}
				runErr = bt.Run()
				st.Probes["second-run-on-the-same-backtest-and-report"]++
			}
			// the assets the run is about: the explicit list, or - for an empty list - every asset of
			// the repository (decided here, not read back from the Backtest value)
			if c.Mode == "explicit" {
				names = append([]string{}, c.Names...)
			} else {
				for _, a := range c.Assets {
					if !a.SrcAbsent {
						names = append(names, a.Name)
					}
				}
			}
		})
	})
	defer func() {
		if dir != "" {
			os.RemoveAll(dir)
		}
		if repoDir != "" {
			os.RemoveAll(repoDir)
		}
		if linkDir != "" {
			os.RemoveAll(linkDir)
		}
	}()
	st.noteSim(out)
	edge := ""
	for _, a := range c.Assets {
		if a.SrcAbsent {
			edge += "m"
			st.Faults["asset-missing-in-repository"]++
		} else if a.SrcN == 0 {
			edge += "e"
			st.Faults["asset-empty"]++
		}
	}
	if (c.Workers > 1 && out.NonFifo > 0) || edge != "" {
		st.cell(c.Impl, wclass(min(c.Workers, 8)), fmt.Sprint(len(c.Subs)), edge, c.Policy.Name)
	}
	if c.Workers > 1 {
		st.Probes["multi-worker-runs"]++
	}
	if out.Err != nil {
		return nil
	}
	if len(out.Panics) > 0 {
		add("panic", regime, fmt.Sprint(out.Panics))
		return vs
	}
	if !clientDone {
		add("hang", regime, "Backtest.Run never returned; "+stuckSummary(out.Stuck))
		return vs
	}
	if len(vs) > 0 {
		return vs
	}
	if blocked {
		// a pair's strategy report could not be written: the run must neither crash nor hang (above)
		// nor race (race-detector companion); what the reports list for that asset is not specified
		st.Faults["strategy-report-file-blocked"]++
		st.Probes["runs-with-a-blocked-strategy-report"]++
		return vs
	}
	if runErr != nil {
		add("run-error", regime, runErr.Error())
		return vs
	}
	// direct evaluation of every (asset, strategy) pair on the windowed snapshots
	type direct struct {
		acts []strategy.Action
		outs []float64
	}
	ref := map[string]direct{}
	var pairs []string
	for _, n := range names {
		if !present[n] {
			continue
		}
		for i, sp := range c.Subs {
			key := fmt.Sprintf("%s|#%d", n, i)
			r := runPipe(PipeOpts{SimOpts: SimOpts{Policy: simrt.PolicySpec{Name: "fifo"}}}, [][]*asset.Snapshot{windowed[n]},
				func(in []<-chan *asset.Snapshot) []<-chan F {
					// "evaluating that strategy directly": its own Compute on the snapshots, and the
					// outcome of following exactly those actions at the closing prices
					snaps := helper.Duplicate(in[0], 2)
					acts := helper.Duplicate(makeBtStrategy(sp).Compute(snaps[0]), 2)
					o := strategy.Outcome(asset.SnapshotsAsClosings(snaps[1]), acts[1])
					return []<-chan F{helper.Map(acts[0], func(x strategy.Action) F { return F(x) }), o}
				})
			st.noteSim(&r.SimOut)
			if r.Err != nil || !r.Built || !allTrue(r.Closed) {
				st.Skipped["not-evaluated:direct-evaluation-does-not-terminate(C03)"]++
				return nil
			}
			d := direct{outs: r.Outs[1]}
			for _, x := range r.Outs[0] {
				d.acts = append(d.acts, strategy.Action(x))
			}
			if _, dup := ref[key]; !dup {
				pairs = append(pairs, key)
			}
			ref[key] = d
		}
	}
	idxOf := func(inst strategy.Strategy) int {
		if t, ok := inst.(*taggedStrategy); ok {
			return t.idx
		}
		return -1
	}
	lastOf := func(d direct) (strategy.Action, float64) {
		var a strategy.Action
		var o float64
		if len(d.acts) > 0 {
			a = d.acts[len(d.acts)-1]
		}
		if len(d.outs) > 0 {
			o = d.outs[len(d.outs)-1]
		}
		return a, o
	}
	switch c.Impl {
	case "recording":
		ev := rec.Events
		sort.Slice(ev, func(i, j int) bool { return ev[i].Seq < ev[j].Seq })
		if len(ev) == 0 || ev[0].Kind != "begin" {
			add("protocol-order", regime, "Begin is not the first notification")
			return vs
		}
		if ev[len(ev)-1].Kind != "end" {
			add("protocol-order", regime, fmt.Sprintf("End is not the last notification (last is %s %s)", ev[len(ev)-1].Kind, ev[len(ev)-1].Asset))
			return vs
		}
		state := map[string]string{}
		writes := map[string]int{}
		for _, e := range ev[1 : len(ev)-1] {
			switch e.Kind {
			case "begin", "end":
				add("protocol-order", regime, "Begin/End notified more than once")
				return vs
			case "asset-begin":
				if state[e.Asset] != "" {
					add("protocol-order", regime, "AssetBegin twice for "+e.Asset)
					return vs
				}
				state[e.Asset] = "open"
			case "write":
				if state[e.Asset] != "open" {
					add("protocol-order", regime, fmt.Sprintf("Write for %s/%s outside AssetBegin..AssetEnd", e.Asset, e.Strat))
					return vs
				}
				key := fmt.Sprintf("%s|#%d", e.Asset, idxOf(e.Inst))
				writes[key]++
				d, ok := ref[key]
				if !ok {
					add("unexpected-result", regime, "Write for the pair "+key+" that is not in the run")
					return vs
				}
				if fmt.Sprint(e.Acts) != fmt.Sprint(d.acts) || !floatsEq(e.Outs, d.outs) {
					add("result-differs-from-direct-evaluation", regime, fmt.Sprintf("pair %s: report got %d actions %v / %d outcomes, direct evaluation on the %d windowed snapshots gives %v", key, len(e.Acts), e.Acts, len(e.Outs), len(windowed[e.Asset]), d.acts))
					return vs
				}
				if e.NSnap != len(windowed[e.Asset]) {
					add("result-differs-from-direct-evaluation", regime, fmt.Sprintf("pair %s: report got %d snapshots, the window holds %d", key, e.NSnap, len(windowed[e.Asset])))
					return vs
				}
			case "asset-end":
				if state[e.Asset] != "open" {
					add("protocol-order", regime, "AssetEnd without AssetBegin for "+e.Asset)
					return vs
				}
				state[e.Asset] = "closed"
				for _, p := range pairs {
					if len(p) > len(e.Asset) && p[:len(e.Asset)+1] == e.Asset+"|" && writes[p] == 0 {
						add("protocol-order", regime, "AssetEnd for "+e.Asset+" before the Write of "+p)
						return vs
					}
				}
			}
		}
		for _, p := range pairs {
			if writes[p] != 1 {
				add("pair-count", regime, fmt.Sprintf("pair %s was reported %d times", p, writes[p]))
				return vs
			}
		}
		for a, s := range state {
			if s != "closed" {
				add("protocol-order", regime, "no AssetEnd for "+a)
				return vs
			}
		}
		st.Probes["protocol-histories-checked"]++
	case "data":
		got := map[string]*backtest.DataStrategyResult{}
		for a, rs := range data.Results {
			for _, r := range rs {
				key := fmt.Sprintf("%s|#%d", a, idxOf(r.Strategy))
				if got[key] != nil {
					add("pair-count", regime, "pair "+key+" appears twice in DataReport.Results")
					return vs
				}
				got[key] = r
			}
		}
		for _, p := range pairs {
			r := got[p]
			if r == nil {
				add("pair-count", regime, "pair "+p+" is missing from DataReport.Results")
				return vs
			}
			a, o := lastOf(ref[p])
			if r.Action != a || math.Float64bits(r.Outcome) != math.Float64bits(o) || fmt.Sprint(r.Transactions) != fmt.Sprint(ref[p].acts) {
				add("result-differs-from-direct-evaluation", regime, fmt.Sprintf("pair %s: DataReport has action %v outcome %v, direct evaluation %v %v", p, r.Action, r.Outcome, a, o))
				return vs
			}
		}
		if len(got) != len(pairs) {
			add("pair-count", regime, fmt.Sprintf("DataReport holds %d results for %d pairs", len(got), len(pairs)))
			return vs
		}
		st.Probes["data-reports-checked"]++
	default:
		best := map[string]float64{}
		bestExact := map[string]float64{}
		bestName := map[string]string{}
		nAssets := 0
		for _, n := range names {
			if !present[n] {
				continue
			}
			nAssets++
			b, err := os.ReadFile(filepath.Join(dir, n+".html"))
			if err != nil {
				add("report-file-missing", regime, err.Error())
				return vs
			}
			if why := notOneDocument(b); why != "" {
				add("report-file-not-one-document", regime, n+".html: "+why)
				return vs
			}
			rows := parseHTMLRows(string(b))
			if len(rows) != len(c.Subs) {
				add("pair-count", regime, fmt.Sprintf("%s.html lists %d strategies, the run has %d", n, len(rows), len(c.Subs)))
				return vs
			}
			// strategies may share a name: compare the rows with the expected (name, outcome)
			// entries as multisets
			var want, gotRows []string
			for i := range c.Subs {
				_, o := lastOf(ref[fmt.Sprintf("%s|#%d", n, i)])
				w := fmt.Sprintf("%.2f", o*100)
				if w == "-0.00" {
					w = "0.00"
				}
				if math.IsNaN(o) || math.IsInf(o, 0) {
					// a purchase at a price of 0 makes the outcome infinite or undefined; which of the
					// two a given arithmetic path prints is not something to hold anyone to
					w = "non-finite"
				}
				want = append(want, strategies[i].Name()+" "+w)
			}
			for i, r := range rows {
				g := fmt.Sprintf("%.2f", r.Outcome)
				if g == "-0.00" {
					g = "0.00"
				}
				if math.IsNaN(r.Outcome) || math.IsInf(r.Outcome, 0) {
					g = "non-finite"
				}
				gotRows = append(gotRows, r.Key+" "+g)
				if i > 0 && r.Outcome > rows[i-1].Outcome {
					add("ranking-order", regime, fmt.Sprintf("%s.html lists %s (%.2f%%) after %s (%.2f%%)", n, r.Key, r.Outcome, rows[i-1].Key, rows[i-1].Outcome))
					return vs
				}
			}
			sort.Strings(want)
			sort.Strings(gotRows)
			if fmt.Sprint(want) != fmt.Sprint(gotRows) {
				add("result-differs-from-direct-evaluation", regime, fmt.Sprintf("%s.html lists %v, direct evaluation gives %v", n, gotRows, want))
				return vs
			}
			// the printed figures have two decimals; the ranking itself is about the outcomes. Where
			// the strategy names are distinct the rows identify the strategies, so the exact outcomes
			// of direct evaluation must be non-increasing down the page and the first row must be the
			// exact maximum (outcomes closer than the printed precision are ranked too).
			exact := map[string]float64{}
			dupName := false
			for i := range c.Subs {
				_, o := lastOf(ref[fmt.Sprintf("%s|#%d", n, i)])
				if _, dup := exact[strategies[i].Name()]; dup {
					dupName = true
				}
				exact[strategies[i].Name()] = o
			}
			if !dupName {
				for i := 1; i < len(rows); i++ {
					a, b := exact[rows[i-1].Key], exact[rows[i].Key]
					if b > a && !math.IsNaN(a) && !math.IsNaN(b) {
						add("ranking-order", regime, fmt.Sprintf("%s.html lists %s (outcome %.10g) after %s (outcome %.10g)", n, rows[i].Key, b, rows[i-1].Key, a))
						return vs
					}
				}
				bestExact[n] = exact[rows[0].Key]
				bestName[n] = rows[0].Key
				st.Probes["rankings-checked-on-exact-outcomes"]++
			}
			best[n] = rows[0].Outcome
			if c.Impl == "html-reports" {
				for _, r := range rows {
					if _, err := os.Stat(filepath.Join(dir, fmt.Sprintf("%s - %s.html", n, r.Key))); err != nil {
						add("report-file-missing", regime, err.Error())
						return vs
					}
				}
			}
		}
		b, err := os.ReadFile(filepath.Join(dir, "index.html"))
		if err != nil {
			add("report-file-missing", regime, err.Error())
			return vs
		}
		if why := notOneDocument(b); why != "" {
			add("report-file-not-one-document", regime, "index.html: "+why)
			return vs
		}
		rows := parseHTMLRows(string(b))
		if len(rows) != nAssets {
			add("pair-count", regime, fmt.Sprintf("index.html lists %d assets, the run has %d readable ones", len(rows), nAssets))
			return vs
		}
		for i, r := range rows {
			if bo, ok := best[r.Key]; !ok || (bo != r.Outcome && !(math.IsNaN(bo) && math.IsNaN(r.Outcome))) {
				add("best-entry-not-maximal", regime, fmt.Sprintf("index.html shows %.2f%% for %s, the best outcome of that asset is %.2f%%", r.Outcome, r.Key, bo))
				return vs
			}
			if i > 0 && r.Outcome > rows[i-1].Outcome {
				add("ranking-order", regime, fmt.Sprintf("index.html lists %s (%.2f%%) after %s (%.2f%%)", r.Key, r.Outcome, rows[i-1].Key, rows[i-1].Outcome))
				return vs
			}
			if bn, ok := bestName[r.Key]; ok && r.Second != bn {
				add("best-entry-not-maximal", regime, fmt.Sprintf("index.html presents %q as the best strategy of %s, the first row of %s.html is %q", r.Second, r.Key, r.Key, bn))
				return vs
			}
			if i > 0 {
				a, okA := bestExact[rows[i-1].Key]
				b, okB := bestExact[r.Key]
				if okA && okB && b > a {
					add("ranking-order", regime, fmt.Sprintf("index.html lists %s (best outcome %.10g) after %s (best outcome %.10g)", r.Key, b, rows[i-1].Key, a))
					return vs
				}
			}
		}
		st.Probes["html-reports-checked"]++
	}
	if lib := out.LibStuck(); len(lib) > 0 {
		// Not part of C13's statement: a strategy report rendered for a window shorter than the
		// strategy's warm-up leaves Shift fills unconsumed (C14 quantifies over longer series only).
		st.Probes["census-not-empty-after-run(report-of-window-shorter-than-warm-up)"]++
	}
	return vs
}

func floatsEq(a, b []float64) bool {
	if len(a) != len(b) {
		return false
	}
	for i := range a {
		if math.Float64bits(a[i]) != math.Float64bits(b[i]) {
			return false
		}
	}
	return true
}

func subNames(s []SubSpec) []string {
	var r []string
	for _, x := range s {
		if x.Entity == "scripted" {
			r = append(r, fmt.Sprintf("scripted(%d)", x.Cfg[0]))
		} else {
			r = append(r, x.Entity)
		}
	}
	return r
}
