package harness

import (
	"fmt"
	"math"
	"math/rand"
	"sync"

	"github.com/cinar/indicator/v2/helper"
	"simrt"
)

// HelperEntity is one stream helper with its slice model.
type HelperEntity struct {
	Name   string
	NIn    int
	NParam int
	MinP   []int                                   // minimum admissible value per parameter
	Build  func(p []int, in []<-chan F) []<-chan F // the stream pipeline
	Model  func(p []int, in [][]F) [][]F           // the slice model
	Ok     func(p []int, lens []int) bool          // optional domain restriction
}

func one(c <-chan F) []<-chan F { return []<-chan F{c} }

// statefulFn returns a function with a memory: value x call number + everything seen so far.
func statefulFn() func(F) F {
	calls, sum := 0.0, 0.0
	return func(v F) F {
		calls++
		sum += v
		return v*calls + sum
	}
}

func mapModel(in []F, f func(F) F) []F {
	r := []F{}
	for _, v := range in {
		r = append(r, f(v))
	}
	return r
}

func zip2(a, b []F, f func(x, y F) F) []F {
	r := []F{}
	for i := 0; i < len(a) && i < len(b); i++ {
		r = append(r, f(a[i], b[i]))
	}
	return r
}

type fieldRow struct {
	A F
	B F
}

// Helpers is the catalogue of stream helpers.
var Helpers = []*HelperEntity{
	{Name: "helper.Map", NIn: 1,
		Build: func(p []int, in []<-chan F) []<-chan F { return one(helper.Map(in[0], func(v F) F { return 2*v + 1 })) },
		Model: func(p []int, in [][]F) [][]F { return [][]F{mapModel(in[0], func(v F) F { return 2*v + 1 })} }},
	{Name: "helper.Apply", NIn: 1,
		Build: func(p []int, in []<-chan F) []<-chan F { return one(helper.Apply(in[0], func(v F) F { return v * v })) },
		Model: func(p []int, in [][]F) [][]F { return [][]F{mapModel(in[0], func(v F) F { return v * v })} }},
	// the mapping functions are called once per element, in order: a function with a memory
	// (running total, call counter) tells a stage that skips, repeats or reorders calls
	{Name: "helper.MapStateful", NIn: 1,
		Build: func(p []int, in []<-chan F) []<-chan F { return one(helper.Map(in[0], statefulFn())) },
		Model: func(p []int, in [][]F) [][]F { return [][]F{mapModel(in[0], statefulFn())} }},
	{Name: "helper.ApplyStateful", NIn: 1,
		Build: func(p []int, in []<-chan F) []<-chan F { return one(helper.Apply(in[0], statefulFn())) },
		Model: func(p []int, in [][]F) [][]F { return [][]F{mapModel(in[0], statefulFn())} }},
	{Name: "helper.OperateStateful", NIn: 2,
		Build: func(p []int, in []<-chan F) []<-chan F {
			f := statefulFn()
			return one(helper.Operate(in[0], in[1], func(a, b F) F { return f(a - 2*b) }))
		},
		Model: func(p []int, in [][]F) [][]F {
			f := statefulFn()
			return [][]F{zip2(in[0], in[1], func(a, b F) F { return f(a - 2*b) })}
		}},
	{Name: "helper.FilterStateful", NIn: 1,
		Build: func(p []int, in []<-chan F) []<-chan F {
			k := 0
			return one(helper.Filter(in[0], func(v F) bool { k++; return k%3 != 0 }))
		},
		Model: func(p []int, in [][]F) [][]F {
			r := []F{}
			for i, v := range in[0] {
				if (i+1)%3 != 0 {
					r = append(r, v)
				}
			}
			return [][]F{r}
		}},
	{Name: "helper.Scalars", NIn: 1, // each wrapper on the raw input (special values included), divisors that are no powers of two
		Build: func(p []int, in []<-chan F) []<-chan F {
			d := helper.Duplicate(in[0], 6)
			return []<-chan F{helper.Abs(d[0]), helper.DivideBy(d[1], 3), helper.DivideBy(d[2], 49), helper.MultiplyBy(d[3], 0.1), helper.IncrementBy(d[4], 0.1), helper.DecrementBy(d[5], 0.3)}
		},
		Model: func(p []int, in [][]F) [][]F {
			return [][]F{
				mapModel(in[0], math.Abs),
				mapModel(in[0], func(v F) F { return v / 3 }),
				mapModel(in[0], func(v F) F { return v / 49 }),
				mapModel(in[0], func(v F) F { return v * 0.1 }),
				mapModel(in[0], func(v F) F { return v + 0.1 }),
				mapModel(in[0], func(v F) F { return v - 0.3 }),
			}
		}},
	{Name: "helper.ApplyFamily", NIn: 1, // Abs, Sign, KeepPositives, IncrementBy, MultiplyBy, DivideBy, DecrementBy, Pow, Sqrt, RoundDigits
		Build: func(p []int, in []<-chan F) []<-chan F {
			c := helper.DecrementBy(in[0], 3)
			d := helper.Duplicate(c, 4)
			return []<-chan F{
				helper.Abs(d[0]),
				helper.Sign(d[1]),
				helper.IncrementBy(helper.MultiplyBy(helper.KeepPositives(d[2]), 3), 1),
				helper.RoundDigits(helper.DivideBy(helper.KeepNegatives(d[3]), 4), 1),
			}
		},
		Model: func(p []int, in [][]F) [][]F {
			c := mapModel(in[0], func(v F) F { return v - 3 })
			return [][]F{
				mapModel(c, math.Abs),
				mapModel(c, func(v F) F {
					if v > 0 {
						return 1
					} else if v < 0 {
						return -1
					}
					return 0
				}),
				mapModel(c, func(v F) F {
					if v > 0 {
						return v*3 + 1
					}
					return 1
				}),
				mapModel(c, func(v F) F {
					x := 0.0
					if v < 0 {
						x = v
					}
					return math.Round(x/4*10) / 10
				}),
			}
		}},
	{Name: "helper.PowSqrt", NIn: 1,
		Build: func(p []int, in []<-chan F) []<-chan F { return one(helper.Sqrt(helper.Pow(in[0], 2))) },
		Model: func(p []int, in [][]F) [][]F {
			return [][]F{mapModel(in[0], func(v F) F { return math.Sqrt(math.Pow(v, 2)) })}
		}},
	{Name: "helper.Pow", NIn: 1, NParam: 1, // whole and fractional exponents, on values with decimals
		Build: func(p []int, in []<-chan F) []<-chan F {
			return one(helper.Pow(helper.Map(in[0], func(v F) F { return v*1.1 + 0.37 }), F(p[0]%19-4)/2))
		},
		Model: func(p []int, in [][]F) [][]F {
			return [][]F{mapModel(in[0], func(v F) F { return math.Pow(v*1.1+0.37, F(p[0]%19-4)/2) })}
		}},
	{Name: "helper.Filter", NIn: 1,
		Build: func(p []int, in []<-chan F) []<-chan F {
			return one(helper.Filter(in[0], func(v F) bool { return int(v)%2 == 0 }))
		},
		Model: func(p []int, in [][]F) [][]F {
			r := []F{}
			for _, v := range in[0] {
				if int(v)%2 == 0 {
					r = append(r, v)
				}
			}
			return [][]F{r}
		}},
	{Name: "helper.Skip", NIn: 1, NParam: 1,
		Build: func(p []int, in []<-chan F) []<-chan F { return one(helper.Skip(in[0], p[0])) },
		Model: func(p []int, in [][]F) [][]F { return [][]F{in[0][min(p[0], len(in[0])):]} }},
	{Name: "helper.First", NIn: 1, NParam: 1,
		Build: func(p []int, in []<-chan F) []<-chan F { return one(helper.First(in[0], p[0])) },
		Model: func(p []int, in [][]F) [][]F { return [][]F{in[0][:min(p[0], len(in[0]))]} }},
	{Name: "helper.Head", NIn: 1, NParam: 1,
		// Head is by design the one helper that leaves the rest of its input to another reader:
		// the harness reads the remainder from the same channel once the head has been delivered.
		Build: func(p []int, in []<-chan F) []<-chan F {
			h := helper.Head(in[0], p[0])
			out0 := make(chan F)
			out1 := make(chan F)
			done := make(chan struct{})
			simrt.GoKind("aux", func() {
				for {
					simrt.Yield(-4, "aux-recv")
					v, ok := <-h
					if !ok {
						break
					}
					simrt.Yield(-5, "aux-send")
					out0 <- v
				}
				close(out0)
				close(done)
			})
			simrt.GoKind("aux", func() {
				simrt.Yield(-6, "aux-wait")
				<-done
				for {
					simrt.Yield(-4, "aux-recv")
					v, ok := <-in[0]
					if !ok {
						break
					}
					simrt.Yield(-5, "aux-send")
					out1 <- v
				}
				close(out1)
			})
			return []<-chan F{out0, out1}
		},
		Model: func(p []int, in [][]F) [][]F {
			k := min(p[0], len(in[0]))
			return [][]F{in[0][:k], in[0][k:]}
		}},
	{Name: "helper.Last", NIn: 1, NParam: 1, MinP: []int{1},
		Build: func(p []int, in []<-chan F) []<-chan F { return one(helper.Last(in[0], p[0])) },
		Model: func(p []int, in [][]F) [][]F { return [][]F{in[0][max(0, len(in[0])-p[0]):]} }},
	{Name: "helper.Shift", NIn: 1, NParam: 1,
		Build: func(p []int, in []<-chan F) []<-chan F { return one(helper.Shift(in[0], p[0], -7)) },
		Model: func(p []int, in [][]F) [][]F {
			r := []F{}
			for i := 0; i < p[0]; i++ {
				r = append(r, -7)
			}
			return [][]F{append(r, in[0]...)}
		}},
	{Name: "helper.Buffered", NIn: 1, NParam: 1,
		Build: func(p []int, in []<-chan F) []<-chan F { return one(helper.Buffered(in[0], p[0])) },
		Model: func(p []int, in [][]F) [][]F { return [][]F{in[0]} }},
	{Name: "helper.Pipe", NIn: 1,
		Build: func(p []int, in []<-chan F) []<-chan F {
			t := make(chan F)
			simrt.Go(func() { helper.Pipe(in[0], t) })
			return one(t)
		},
		Model: func(p []int, in [][]F) [][]F { return [][]F{in[0]} }},
	{Name: "helper.Waitable", NIn: 1,
		Build: func(p []int, in []<-chan F) []<-chan F {
			wg := &sync.WaitGroup{}
			return one(helper.Waitable(wg, in[0]))
		},
		Model: func(p []int, in [][]F) [][]F { return [][]F{in[0]} }},
	{Name: "helper.Duplicate", NIn: 1, NParam: 1, MinP: []int{1},
		Build: func(p []int, in []<-chan F) []<-chan F { return helper.Duplicate(in[0], p[0]) },
		Model: func(p []int, in [][]F) [][]F {
			r := make([][]F, p[0])
			for i := range r {
				r[i] = in[0]
			}
			return r
		}},
	{Name: "helper.Count", NIn: 1, NParam: 1,
		// the start is p/10: whole for multiples of ten, otherwise a fraction like 0.1 or 1.3
		Build: func(p []int, in []<-chan F) []<-chan F { return one(helper.Count(F(p[0])/10, in[0])) },
		Model: func(p []int, in [][]F) [][]F {
			r := []F{}
			for i := range in[0] {
				r = append(r, F(p[0])/10+F(i)) // the i-th count is the start plus i
			}
			return [][]F{r}
		}},
	{Name: "helper.Since", NIn: 1,
		Build: func(p []int, in []<-chan F) []<-chan F { return one(helper.Since[F, F](in[0])) },
		Model: func(p []int, in [][]F) [][]F {
			r := []F{}
			cnt := 0.0
			for i, v := range in[0] {
				if i == 0 || v != in[0][i-1] {
					cnt = 0
				} else {
					cnt++
				}
				r = append(r, cnt)
			}
			return [][]F{r}
		}},
	{Name: "helper.MapWithPrevious", NIn: 1,
		Build: func(p []int, in []<-chan F) []<-chan F {
			return one(helper.MapWithPrevious(in[0], func(prev F, v F) F { return prev/2 + v }, 5))
		},
		Model: func(p []int, in [][]F) [][]F {
			r := []F{}
			prev := 5.0
			for _, v := range in[0] {
				prev = prev/2 + v
				r = append(r, prev)
			}
			return [][]F{r}
		}},
	{Name: "helper.Change", NIn: 1, NParam: 1,
		Build: func(p []int, in []<-chan F) []<-chan F { return one(helper.Change(in[0], p[0])) },
		Model: func(p []int, in [][]F) [][]F {
			r := []F{}
			for i := p[0]; i < len(in[0]); i++ {
				r = append(r, in[0][i]-in[0][i-p[0]])
			}
			return [][]F{r}
		}},
	{Name: "helper.ChangeRatio", NIn: 1, NParam: 1,
		Build: func(p []int, in []<-chan F) []<-chan F { return one(helper.ChangeRatio(in[0], p[0])) },
		Model: func(p []int, in [][]F) [][]F {
			r := []F{}
			for i := p[0]; i < len(in[0]); i++ {
				r = append(r, (in[0][i]-in[0][i-p[0]])/in[0][i-p[0]])
			}
			return [][]F{r}
		}},
	{Name: "helper.ChangePercent", NIn: 1, NParam: 1,
		Build: func(p []int, in []<-chan F) []<-chan F { return one(helper.ChangePercent(in[0], p[0])) },
		Model: func(p []int, in [][]F) [][]F {
			r := []F{}
			for i := p[0]; i < len(in[0]); i++ {
				r = append(r, (in[0][i]-in[0][i-p[0]])/in[0][i-p[0]]*100)
			}
			return [][]F{r}
		}},
	{Name: "helper.Operate", NIn: 2,
		Build: func(p []int, in []<-chan F) []<-chan F {
			return one(helper.Operate(in[0], in[1], func(a, b F) F { return a*10 - b }))
		},
		Model: func(p []int, in [][]F) [][]F { return [][]F{zip2(in[0], in[1], func(a, b F) F { return a*10 - b })} }},
	{Name: "helper.Arith2", NIn: 2, // Add Subtract Multiply Divide
		Build: func(p []int, in []<-chan F) []<-chan F {
			a := helper.Duplicate(in[0], 4)
			b := helper.Duplicate(in[1], 4)
			return []<-chan F{helper.Add(a[0], b[0]), helper.Subtract(a[1], b[1]), helper.Multiply(a[2], b[2]), helper.Divide(a[3], b[3])}
		},
		Model: func(p []int, in [][]F) [][]F {
			return [][]F{
				zip2(in[0], in[1], func(a, b F) F { return a + b }),
				zip2(in[0], in[1], func(a, b F) F { return a - b }),
				zip2(in[0], in[1], func(a, b F) F { return a * b }),
				zip2(in[0], in[1], func(a, b F) F { return a / b }),
			}
		},
		// the lock-step Duplicates stop delivering to the longer side's branches only through
		// Operate's drains, so unequal lengths are in the domain here as well
	},
	{Name: "helper.ArithSameSource", NIn: 1, // both operands of each operator are copies made by one Duplicate (a lock-step producer)
		Build: func(p []int, in []<-chan F) []<-chan F {
			d := helper.Duplicate(in[0], 8)
			return []<-chan F{helper.Add(d[0], d[1]), helper.Subtract(d[2], d[3]), helper.Multiply(d[4], d[5]), helper.Divide(d[6], d[7])}
		},
		Model: func(p []int, in [][]F) [][]F {
			return [][]F{
				zip2(in[0], in[0], func(a, b F) F { return a + b }),
				zip2(in[0], in[0], func(a, b F) F { return a - b }),
				zip2(in[0], in[0], func(a, b F) F { return a * b }),
				zip2(in[0], in[0], func(a, b F) F { return a / b }),
			}
		}},
	{Name: "helper.Operate3", NIn: 3,
		Build: func(p []int, in []<-chan F) []<-chan F {
			return one(helper.Operate3(in[0], in[1], in[2], func(a, b, c F) F { return a*100 + b*10 - c }))
		},
		Model: func(p []int, in [][]F) [][]F {
			r := []F{}
			for i := 0; i < len(in[0]) && i < len(in[1]) && i < len(in[2]); i++ {
				r = append(r, in[0][i]*100+in[1][i]*10-in[2][i])
			}
			return [][]F{r}
		}},
	{Name: "helper.Echo", NIn: 1, NParam: 2, MinP: []int{1, 0},
		Ok:    func(p []int, lens []int) bool { return lens[0] >= p[0] },
		Build: func(p []int, in []<-chan F) []<-chan F { return one(helper.Echo(in[0], p[0], p[1])) },
		Model: func(p []int, in [][]F) [][]F {
			r := append([]F{}, in[0]...)
			tail := in[0][len(in[0])-p[0]:]
			for i := 0; i < p[1]; i++ {
				r = append(r, tail...)
			}
			return [][]F{r}
		}},
	{Name: "helper.Seq", NIn: 0, NParam: 3, MinP: []int{0, 0, 1},
		Build: func(p []int, in []<-chan F) []<-chan F { return one(helper.Seq(F(p[0]), F(p[1]), F(p[2]))) },
		Model: func(p []int, in [][]F) [][]F {
			r := []F{}
			for i := F(p[0]); i < F(p[1]); i += F(p[2]) {
				r = append(r, i)
			}
			return [][]F{r}
		}},
	{Name: "helper.SyncPeriod", NIn: 1, NParam: 2,
		Build: func(p []int, in []<-chan F) []<-chan F {
			return one(helper.SyncPeriod(helper.CommonPeriod(p[0], p[1]), p[1], in[0]))
		},
		Model: func(p []int, in [][]F) [][]F {
			k := max(p[0], p[1]) - p[1]
			return [][]F{in[0][min(k, len(in[0])):]}
		}},
	{Name: "helper.SyncPeriods3", NIn: 3, NParam: 3, // the periods are kept in a slice that is used again after CommonPeriod
		Build: func(p []int, in []<-chan F) []<-chan F {
			ps := []int{p[0], p[1], p[2]}
			common := helper.CommonPeriod(ps...)
			outs := make([]<-chan F, 3)
			for i := range outs {
				outs[i] = helper.SyncPeriod(common, ps[i], in[i])
			}
			return outs
		},
		Model: func(p []int, in [][]F) [][]F {
			m := max(p[0], p[1], p[2])
			r := make([][]F, 3)
			for i := range r {
				r[i] = in[i][min(m-p[i], len(in[i])):]
			}
			return r
		}},
	{Name: "helper.FilterPointers", NIn: 1, // elements are pointers, every third one nil, and the predicate accepts nil
		Build: func(p []int, in []<-chan F) []<-chan F {
			ptrs := make(chan *F)
			simrt.GoKind("cons", func() {
				k := 0
				for {
					consYield()
					v, ok := <-in[0]
					if !ok {
						close(ptrs)
						return
					}
					k++
					if k%3 == 0 {
						ptrs <- nil
					} else {
						w := v
						ptrs <- &w
					}
				}
			})
			kept := helper.Filter(ptrs, func(v *F) bool { return v == nil || int(*v)%2 == 0 })
			out := make(chan F)
			simrt.GoKind("cons", func() {
				for {
					consYield()
					v, ok := <-kept
					if !ok {
						close(out)
						return
					}
					if v == nil {
						out <- -999
					} else {
						out <- *v
					}
				}
			})
			return one(out)
		},
		Model: func(p []int, in [][]F) [][]F {
			r := []F{}
			for i, v := range in[0] {
				if (i+1)%3 == 0 {
					r = append(r, -999)
				} else if int(v)%2 == 0 {
					r = append(r, v)
				}
			}
			return [][]F{r}
		}},
	{Name: "helper.Drain", NIn: 1,
		Build: func(p []int, in []<-chan F) []<-chan F {
			simrt.Go(func() { helper.Drain(in[0]) })
			return nil
		},
		Model: func(p []int, in [][]F) [][]F { return nil }},
	{Name: "helper.SliceChan", NIn: 1, // SliceToChan of ChanToSlice
		Build: func(p []int, in []<-chan F) []<-chan F {
			out := make(chan F)
			simrt.Go(func() {
				s := helper.ChanToSlice(in[0])
				helper.Pipe(helper.SliceToChan(s), out)
			})
			return one(out)
		},
		Model: func(p []int, in [][]F) [][]F { return [][]F{in[0]} }},
	{Name: "helper.Field", NIn: 1,
		Build: func(p []int, in []<-chan F) []<-chan F {
			rows := helper.Map(in[0], func(v F) *fieldRow { return &fieldRow{A: v, B: -v} })
			c, err := helper.Field[F](rows, "B")
			if err != nil {
				panic(err)
			}
			return one(c)
		},
		Model: func(p []int, in [][]F) [][]F { return [][]F{mapModel(in[0], func(v F) F { return -v })} }},
	// the helpers are generic over the element type: float32 and int instantiations of the
	// arithmetic ones (what is rounded, truncated or overflows depends on the type)
	{Name: "helper.TypedFloat32", NIn: 1, NParam: 1, // RoundDigits, MultiplyBy, ChangePercent over float32
		Build: func(p []int, in []<-chan F) []<-chan F {
			c := helper.Duplicate(helper.Map(in[0], func(v F) float32 { return float32(v) / 8 * 1.005 }), 3)
			toF := func(x <-chan float32) <-chan F { return helper.Map(x, func(v float32) F { return F(v) }) }
			return []<-chan F{toF(helper.RoundDigits(c[0], p[0]%4)), toF(helper.MultiplyBy(c[1], float32(1.1))), toF(helper.ChangePercent(c[2], 1))}
		},
		Model: func(p []int, in [][]F) [][]F {
			r := [][]F{{}, {}, {}}
			var prev float32
			for i, v := range in[0] {
				x := float32(v) / 8 * 1.005
				m := math.Pow(10, float64(p[0]%4))
				r[0] = append(r[0], F(float32(math.Round(float64(x)*m)/m))) // the scalar rule, element by element
				r[1] = append(r[1], F(x*float32(1.1)))
				if i > 0 {
					r[2] = append(r[2], F((x-prev)/prev*100))
				}
				prev = x
			}
			return r
		}},
	{Name: "helper.TypedInt", NIn: 1, NParam: 1, // RoundDigits, MultiplyBy, DivideBy, ChangePercent over int16 (values 6..19)
		Build: func(p []int, in []<-chan F) []<-chan F {
			c := helper.Duplicate(helper.Map(in[0], func(v F) int16 { return int16(v) + 10 }), 4)
			toF := func(x <-chan int16) <-chan F { return helper.Map(x, func(v int16) F { return F(v) }) }
			k := int16(p[0]%5 + 2)
			return []<-chan F{toF(helper.RoundDigits(c[0], p[0]%3)), toF(helper.MultiplyBy(c[1], 3000*k)), toF(helper.DivideBy(c[2], k)), toF(helper.ChangePercent(c[3], 1))}
		},
		Model: func(p []int, in [][]F) [][]F {
			r := [][]F{{}, {}, {}, {}}
			k := int16(p[0]%5 + 2)
			var prev int16
			for i, v := range in[0] {
				x := int16(v) + 10
				m := math.Pow(10, float64(p[0]%3))
				r[0] = append(r[0], F(int16(math.Round(float64(x)*m)/m)))
				r[1] = append(r[1], F(x*(3000*k))) // wraps around like any int16 product
				r[2] = append(r[2], F(x/k))
				if i > 0 {
					r[3] = append(r[3], F((x-prev)/prev*100))
				}
				prev = x
			}
			return r
		}},
	{Name: "helper.TypedIntRoots", NIn: 1, // Sqrt, Abs, Sign, Pow over int16 (values 1..24): integer instantiations truncate like T(f(float64(n)))
		Build: func(p []int, in []<-chan F) []<-chan F {
			c := helper.Duplicate(helper.Map(in[0], func(v F) int16 { return int16(v) + 15 }), 3)
			toF := func(x <-chan int16) <-chan F { return helper.Map(x, func(v int16) F { return F(v) }) }
			return []<-chan F{toF(helper.Sqrt(c[0])), toF(helper.Abs(helper.DecrementBy(c[1], 20))), toF(helper.Sign(helper.DecrementBy(c[2], 15)))}
		},
		Model: func(p []int, in [][]F) [][]F {
			r := [][]F{{}, {}, {}}
			for _, v := range in[0] {
				x := int16(v) + 15
				r[0] = append(r[0], F(int16(math.Sqrt(float64(x)))))
				r[1] = append(r[1], F(int16(math.Abs(float64(x-20)))))
				s := int16(0)
				if x-15 > 0 {
					s = 1
				} else if x-15 < 0 {
					s = -1
				}
				r[2] = append(r[2], F(s))
			}
			return r
		}},
	{Name: "helper.TypedInt64Arith", NIn: 1, // MultiplyBy and IncrementBy over int64 beyond 2^53 (and a product that wraps): the model is n*m and n+i in int64
		Build: func(p []int, in []<-chan F) []<-chan F {
			c := helper.Duplicate(helper.Map(in[0], func(v F) int64 { return (int64(v) + 5) * 1000000000000001 }), 4)
			res := []<-chan int64{helper.MultiplyBy(c[0], 1), helper.MultiplyBy(c[1], 3), helper.MultiplyBy(c[2], 1<<10), helper.IncrementBy(c[3], 1)}
			var out []<-chan F
			for _, r := range res {
				d := helper.Duplicate(r, 2)
				out = append(out, helper.Map(d[0], func(v int64) F { return F(v >> 32) }), helper.Map(d[1], func(v int64) F { return F(v & 0xffffffff) }))
			}
			return out
		},
		Model: func(p []int, in [][]F) [][]F {
			r := make([][]F, 8)
			for i := range r {
				r[i] = []F{}
			}
			for _, v := range in[0] {
				x := (int64(v) + 5) * 1000000000000001
				for k, y := range []int64{x * 1, x * 3, x * (1 << 10), x + 1} {
					r[2*k] = append(r[2*k], F(y>>32))
					r[2*k+1] = append(r[2*k+1], F(y&0xffffffff))
				}
			}
			return r
		}},
	{Name: "helper.FieldPromoted", NIn: 1, // a field promoted from an embedded struct (asset rows embedding a price struct)
		Build: func(p []int, in []<-chan F) []<-chan F {
			rows := helper.Map(in[0], func(v F) *fieldOuter { return &fieldOuter{N: 7, fieldRow: fieldRow{A: v, B: 2 * v}} })
			c, err := helper.Field[F](rows, "B")
			if err != nil {
				panic(err)
			}
			return one(c)
		},
		Model: func(p []int, in [][]F) [][]F { return [][]F{mapModel(in[0], func(v F) F { return 2 * v })} }},
}

type fieldOuter struct {
	N int64
	fieldRow
}

var helperByName = map[string]*HelperEntity{}

func init() {
	for _, h := range Helpers {
		helperByName[h.Name] = h
	}
}

// helperInputs: small integer-valued floats with ties and runs (exact arithmetic, Since counters
// and Filter both get something to do). Zero - the zero value of the element type - is in the
// pool, also as the first element; ratios over it give Inf/NaN in the model and the helper alike.
func helperInputs(lens []int, seed int64) [][]F {
	rng := rand.New(rand.NewSource(seed))
	in := make([][]F, len(lens))
	for i, n := range lens {
		in[i] = make([]F, n)
		for k := range in[i] {
			if k > 0 && rng.Intn(3) == 0 {
				in[i][k] = in[i][k-1]
			} else {
				in[i][k] = F(rng.Intn(14) - 4) // -4..9: negatives and zero included
			}
			if rng.Intn(60) == 0 {
				in[i][k] = []F{math.NaN(), math.Inf(1), math.Inf(-1), math.Copysign(0, -1)}[rng.Intn(4)] // not-a-number, infinities and the negative zero are values too
			}
		}
	}
	return in
}

// C16: stream helpers equal their slice models.
type c16 struct{}

func init() { register(c16{}) }

func (c16) ID() string { return "C16" }

func (c16) Rule() string {
	return "case = (helper, parameters 0..len+3 (>= 1 where the domain says so), independently drawn input lengths incl. 0, element sequences with ties, input capacity 0..4, scheduling policy+seed); " +
		"oracle: exact slice model, every producer finishes (longer inputs consumed), every output closes, empty census; " +
		"a cell (helper, parameter regime: 0 / <len / =len / >len, length regime: empty / equal / unequal, policy) is non-trivial when an input is empty, lengths differ, a parameter is >= the length, or the schedule had a non-FIFO decision; distinct_nontrivial counts distinct cells"
}

func (c16) Components() (real, stub []string) { return c03{}.Components() }

func (c16) Gen(rng *rand.Rand, tier string, k int) *Case {
	h := Helpers[rng.Intn(len(Helpers))]
	c := &Case{Family: "helper", Entity: h.Name}
	for {
		n := rng.Intn(13)
		if rng.Intn(6) == 0 {
			n = 0
		} else if rng.Intn(12) == 0 {
			n = 13 + rng.Intn(70) // longer than any fixed-size internal buffer
		} else if rng.Intn(60) == 0 {
			n = 129 + rng.Intn(200) // longer than a buffer of 64 or 128 as well
		}
		c.Lens = make([]int, h.NIn)
		for i := range c.Lens {
			c.Lens[i] = n
		}
		if h.NIn > 1 && rng.Intn(10) < 6 {
			for i := range c.Lens {
				c.Lens[i] = rng.Intn(13)
			}
		}
		c.Param = make([]int, h.NParam)
		for i := range c.Param {
			lo := 0
			if i < len(h.MinP) {
				lo = h.MinP[i]
			}
			c.Param[i] = lo + rng.Intn(n+4)
			if h.Name == "helper.Shift" && rng.Intn(12) == 0 {
				c.Param[i] = 250 + rng.Intn(60) // strategies with long warm-ups shift by hundreds
			}
			if h.Name == "helper.Duplicate" {
				c.Param[i] = 1 + rng.Intn(5)
				if rng.Intn(5) == 0 {
					c.Param[i] = 6 + rng.Intn(20) // a fan-out wider than anything in the library
				}
			}
		}
		if h.Ok == nil || h.Ok(c.Param, c.Lens) {
			break
		}
	}
	c.DataSeed = rng.Int63n(1 << 30)
	if rng.Intn(2) == 0 {
		c.Cap = rng.Intn(5)
	}
	c.Policy = genPolicy(rng)
	return c
}

func (c16) Shrinks(c *Case) []*Case {
	h := helperByName[c.Entity]
	var out []*Case
	for _, d := range pipeShrinks(c) {
		ok := true
		for i, p := range d.Param {
			if i < len(h.MinP) && p < h.MinP[i] {
				ok = false
			}
		}
		if ok && (h.Ok == nil || h.Ok(d.Param, d.Lens)) {
			out = append(out, d)
		}
	}
	return out
}

func (c16) Run(c *Case, st *Stats) []Violation {
	h := helperByName[c.Entity]
	inputs := helperInputs(c.Lens, c.DataSeed)
	r := runPipe(c.pipeOpts(), inputs, func(in []<-chan F) []<-chan F { return h.Build(c.Param, in) })
	st.noteSim(&r.SimOut)
	lenReg := "equal"
	if len(c.Lens) > 0 && !equalInts(c.Lens) {
		lenReg = "unequal-lengths"
		st.Faults["unequal-eof"]++
	} else if len(c.Lens) > 0 && c.Lens[0] == 0 {
		lenReg = "empty"
		st.Faults["empty-input"]++
	}
	parReg := "-"
	if len(c.Param) > 0 && len(c.Lens) > 0 {
		switch p, n := c.Param[0], c.Lens[0]; {
		case p == 0:
			parReg = "p=0"
		case p < n:
			parReg = "p<len"
		case p == n:
			parReg = "p=len"
		default:
			parReg = "p>len"
		}
		if c.Param[0] >= c.Lens[0] {
			st.Faults["eof-within-parameter-window"]++
		}
	}
	if lenReg != "equal" || parReg == "p=len" || parReg == "p>len" || parReg == "p=0" || r.NonFifo > 0 {
		st.cell(c.Entity, parReg, lenReg, c.Policy.Name)
	}
	if r.Err != nil {
		return nil
	}
	regime := lenReg
	desc := fmt.Sprintf("%s param=%v lens=%v cap=%d policy=%s: ", c.Entity, c.Param, c.Lens, c.Cap, c.Policy.Name)
	var vs []Violation
	add := func(kind, detail string) {
		vs = append(vs, Violation{Prop: "C16", Entity: c.Entity, Kind: kind, Regime: regime, Detail: desc + detail, Decisions: r.Decisions})
	}
	// aux tasks of the Head model count as clients
	var stuck []StuckInfo
	for _, s := range r.Stuck {
		if s.Kind == "lib" || s.Kind == "aux" {
			stuck = append(stuck, s)
		}
	}
	if len(r.Panics) > 0 {
		add("panic", fmt.Sprint(r.Panics))
		return vs
	}
	if !r.Built || !allTrue(r.Closed) || !allTrue(r.ProdDone) {
		add("deadlock", fmt.Sprintf("outputs closed=%v producers finished (inputs consumed to the end)=%v; %s", r.Closed, r.ProdDone, stuckSummary(r.Stuck)))
		return vs
	}
	if len(stuck) > 0 {
		add("leak", stuckSummary(stuck))
		return vs
	}
	want := h.Model(c.Param, inputs)
	got := r.Outs
	if len(got) != len(want) {
		add("wrong-output", fmt.Sprintf("%d outputs, model has %d", len(got), len(want)))
		return vs
	}
	for j := range want {
		if len(got[j]) != len(want[j]) {
			add("wrong-length", fmt.Sprintf("output %d has %d elements, model %d (inputs %v)", j, len(got[j]), len(want[j]), inputs))
			return vs
		}
		for k := range want[j] {
			if math.Float64bits(got[j][k]) != math.Float64bits(want[j][k]) && !(math.IsNaN(got[j][k]) && math.IsNaN(want[j][k])) {
				add("wrong-output", fmt.Sprintf("output %d position %d is %v, model %v (inputs %v)", j, k, got[j][k], want[j][k], inputs))
				return vs
			}
		}
	}
	st.Probes["model-compared"]++
	return vs
}
