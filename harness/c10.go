package harness

import (
	"fmt"
	"math"
	"math/rand"
	"os"
	"path/filepath"
	"sort"
	"strings"
	"time"

	"github.com/cinar/indicator/v2/asset"
	"simrt"
)

// C10: repositories behave as a map from asset name to ordered snapshots.
type c10 struct{}

func init() { register(c10{}) }

func (c10) ID() string { return "C10" }

func (c10) Rule() string {
	return "case = (implementation: in-memory, file-system (fresh directory, optionally with pre-existing empty and header-only files), SQL (real SQLRepository + database/sql over a simulated driver); history of 3-12 operations Append/Get/GetSince/LastDate/Assets over names A B C and the never-appended Z; appended snapshots carry finite float64 values from edge pools and whole-day UTC dates from 2000 on, strictly increasing per asset except for backfilling / same-day-again appends; GetSince bounds on, just before, just after and between stored dates; reads are issued right after Append returns under schedules that starve whatever the Append left behind; scheduling policy+seed); " +
		"oracle: a map[string][]Snapshot stepped operation by operation; " +
		"a cell (implementation, operation bigram, result class, policy) is non-trivial when the bigram contains an Append; distinct_nontrivial counts distinct cells"
}

func (c10) Components() (real, stub []string) {
	return []string{"asset.InMemoryRepository, asset.FileSystemRepository, asset.SQLRepository, helper.Csv (AST-instrumented copy)", "database/sql", "the OS file system (a fresh directory per run)"},
		[]string{"simsql: in-memory database/sql driver with a six-statement dialect (a stub of a conforming database)", "snapshot producers and stream consumers (tasks)", "scheduler: simrt controller"}
}

// asset names, one of them with dots (tickers such as BRK.B are common); Z is never appended
var c10Names = []string{"A", "BRK.B", "C.x.y", "Z"}

func (c10) Gen(rng *rand.Rand, tier string, k int) *Case {
	c := &Case{Family: "repo", Impl: []string{"memory", "file", "sql"}[rng.Intn(3)]}
	c.Entity = "repository." + c.Impl
	if c.Impl == "file" {
		c.Mode = []string{"", "", "empty-file-A", "header-only-A", "dir-at-Z", "long-Z", "linked-A"}[rng.Intn(7)]
	}
	// three names per case: tickers with dots, names ending in the letters of the file suffix or
	// in a dot, names that differ only in case, a blank inside
	names := c10Names[:3]
	if rng.Intn(3) == 0 {
		pool := []string{"A", "BRK.B", "C.x.y", "btc", "vics", "x.", "Abc", "aBC", "csv", "a b", "s"}
		rng.Shuffle(len(pool), func(i, j int) { pool[i], pool[j] = pool[j], pool[i] })
		names = pool[:3]
	}
	next := map[string]int{}
	n := 3 + rng.Intn(10)
	for i := 0; i < n; i++ {
		name := names[rng.Intn(3)]
		switch x := rng.Intn(10); {
		case x < 4:
			cnt := rng.Intn(5)
			if rng.Intn(300) == 0 {
				cnt = 1001 + rng.Intn(1600) // years of history in one Append
			} else if rng.Intn(50) == 0 {
				cnt = 257 + rng.Intn(400) // a long history in one Append (more than any batch size)
			} else if rng.Intn(20) == 0 {
				cnt = 6 + rng.Intn(200) // every length in between, so that totals of any size are read back
			}
			gap := rng.Intn(3)
			if next[name] > 2 && rng.Intn(4) == 0 {
				// backfill or same-day-again: dates at or before what is already stored (append order
				// != date order); the specification is the list of appended snapshots, in append order
				c.Ops = append(c.Ops, OpSpec{Op: "append", Name: name, N: 1 + rng.Intn(3), From: rng.Intn(next[name]), Seed: rng.Int63n(1 << 30)})
				break
			}
			c.Ops = append(c.Ops, OpSpec{Op: "append", Name: name, N: cnt, From: next[name] + gap, Seed: rng.Int63n(1 << 30), Half: cnt > 0 && rng.Intn(10) == 0})
			next[name] += gap + cnt + rng.Intn(2)
		case x < 6:
			if rng.Intn(6) == 0 {
				name = "Z"
			}
			c.Ops = append(c.Ops, OpSpec{Op: "get", Name: name, N: holdFlag(rng)})
		case x < 8:
			if rng.Intn(6) == 0 {
				name = "Z"
			}
			zone := 0
			if rng.Intn(4) == 0 {
				zone = []int{9, -5, 1, -11, 13}[rng.Intn(5)] // the same instant seen from another zone (callers pass time.Local)
			}
			c.Ops = append(c.Ops, OpSpec{Op: "getsince", Name: name, From: rng.Intn(next[name]+3) - 1, Half: rng.Intn(3) == 0, Zone: zone, N: holdFlag(rng)})
		case x < 9:
			if rng.Intn(6) == 0 {
				name = "Z"
			}
			c.Ops = append(c.Ops, OpSpec{Op: "lastdate", Name: name})
		default:
			c.Ops = append(c.Ops, OpSpec{Op: "assets"})
		}
	}
	if rng.Intn(25) == 0 {
		// dates "from 2000 on" have no upper end: a history around 2262-04-11 (where nanoseconds
		// since 1970 leave an int64) or at the end of 2499
		k := []int{95786, 182613}[rng.Intn(2)]
		for i := range c.Ops {
			if c.Ops[i].Op == "append" || c.Ops[i].Op == "getsince" {
				c.Ops[i].From += k
			}
		}
	} else if rng.Intn(5) == 0 {
		// the history straddles a turn of the year (calendar arithmetic on dates shows there)
		k := 345 + rng.Intn(20)
		for i := range c.Ops {
			if c.Ops[i].Op == "append" || c.Ops[i].Op == "getsince" {
				c.Ops[i].From += k
			}
		}
	}
	c.Cap = rng.Intn(3)
	if rng.Intn(6) == 0 {
		c.Cap = 3 + rng.Intn(6)
	}
	if c.Impl == "sql" && rng.Intn(4) == 0 {
		// fault-injecting configuration: the database rejects the k-th INSERT of the history
		c.Faults = append(c.Faults, FaultSpec{Kind: "sql-exec-error", At: 1 + rng.Intn(8)})
	}
	if c.Impl == "file" && rng.Intn(4) == 0 {
		// fault-injecting configuration: the disk is full after k more bytes on the n-th open of an
		// asset file, or the n-th close of a written file fails
		if rng.Intn(3) > 0 {
			c.Faults = append(c.Faults, FaultSpec{Kind: "fs-write-budget", Name: ".csv", At: rng.Intn(300), N: 1 + rng.Intn(2*n)})
		} else {
			c.Faults = append(c.Faults, FaultSpec{Kind: "fs-close-error", Name: ".csv", N: 1 + rng.Intn(n)})
		}
	}
	c.Policy = genPolicy(rng)
	return c
}

// holdFlag: one read in four keeps its stream open across the next operation and is drained only
// afterwards (a caller copying one asset into another, or looking something up while iterating).
func holdFlag(rng *rand.Rand) int {
	if rng.Intn(4) == 0 {
		return 1
	}
	return 0
}

func (c10) Shrinks(c *Case) []*Case {
	var out []*Case
	for i := range c.Ops {
		if (c.Ops[i].Op == "get" || c.Ops[i].Op == "getsince") && c.Ops[i].N == 1 {
			d := *c
			d.Ops = append([]OpSpec{}, c.Ops...)
			d.Ops[i].N = 0
			out = append(out, &d)
		}
		if len(c.Ops) > 1 {
			d := *c
			d.Ops = append(append([]OpSpec{}, c.Ops[:i]...), c.Ops[i+1:]...)
			out = append(out, &d)
		}
		if c.Ops[i].Op == "append" && c.Ops[i].N > 0 {
			d := *c
			d.Ops = append([]OpSpec{}, c.Ops...)
			d.Ops[i].N--
			out = append(out, &d)
		}
	}
	if c.Cap > 0 {
		d := *c
		d.Cap = 0
		out = append(out, &d)
	}
	if c.Mode != "" {
		d := *c
		d.Mode = ""
		out = append(out, &d)
	}
	return out
}

var base2000 = time.Date(2000, 1, 3, 0, 0, 0, 0, time.UTC)

func genRepoSnapshots(op OpSpec) []*asset.Snapshot {
	rng := rand.New(rand.NewSource(op.Seed))
	out := make([]*asset.Snapshot, op.N)
	for i := range out {
		pick := func() float64 {
			switch rng.Intn(6) {
			case 0:
				return []float64{0, 1, 0.1, 1e-9, 123456.789, 1e15, math.MaxFloat64 / 4, math.SmallestNonzeroFloat64}[rng.Intn(8)]
			case 1:
				return float64(rng.Intn(1000))
			}
			return 50 + 50*rng.Float64()
		}
		out[i] = &asset.Snapshot{Date: base2000.AddDate(0, 0, op.From+i), Open: pick(), High: pick(), Low: pick(), Close: pick(), Volume: float64(rng.Intn(1e6))}
		if rng.Intn(4) == 0 {
			out[i].Volume += []float64{0.5, 0.25, 0.001}[rng.Intn(3)] // fractional shares are volumes too
		}
		if rng.Intn(8) == 0 {
			// a wide row: every field near the longest float64 renderings (24 characters each)
			wide := func() float64 {
				return []float64{math.MaxFloat64, -math.MaxFloat64, -2.2250738585072014e-308, -1.2345678901234567e-300, 1.7976931348623155e+308, -4.9406564584124654e-324}[rng.Intn(6)]
			}
			out[i].Open, out[i].High, out[i].Low, out[i].Close, out[i].Volume = wide(), wide(), wide(), wide(), wide()
		}
	}
	return out
}

func snapEq(a, b *asset.Snapshot) bool {
	return a.Date.Equal(b.Date) && a.Open == b.Open && a.High == b.High && a.Low == b.Low && a.Close == b.Close && a.Volume == b.Volume
}

func (c10) Run(c *Case, st *Stats) []Violation {
	var vs []Violation
	add := func(kind, regime, detail string) {
		vs = append(vs, Violation{Prop: "C10", Entity: c.Entity, Kind: kind, Regime: regime, Detail: fmt.Sprintf("%s history=%s: %s", c.Entity, histString(c.Ops), detail)})
	}
	dir, store := "", ""
	dbName := ""
	var sdb *simDB
	clientDone := false
	plan := fsPlan(c.Faults)
	ioFault := false
	out := simulate(SimOpts{Policy: c.Policy, Record: c.Record, MaxSteps: 2_000_000}, func(s *simrt.Sim) {
		if plan != nil {
			s.SetFaults(plan)
		}
		simrt.GoKind("client", func() {
			defer func() { clientDone = true }()
			var repo asset.Repository
			preexisting := map[string]bool{}
			switch c.Impl {
			case "memory":
				repo = asset.NewInMemoryRepository()
				if c.Seed%3 == 0 {
					// through the public factory, with the usual empty configuration: every repository it
					// builds is a map of its own
					r, err := asset.NewRepository(asset.InMemoryRepositoryBuilderName, "")
					if err != nil {
						add("constructor-error", "-", err.Error())
						return
					}
					repo = r
					st.Probes["repositories-built-by-the-factory"]++
				}
			case "file":
				dir = runDir()
				switch c.Mode {
				case "empty-file-A":
					os.WriteFile(filepath.Join(dir, "A.csv"), nil, 0o644)
					preexisting["A"] = true
				case "header-only-A":
					os.WriteFile(filepath.Join(dir, "A.csv"), []byte("Date,Open,High,Low,Close,Volume\n"), 0o644)
					preexisting["A"] = true
				case "linked-A":
					// the asset's file is kept elsewhere and linked into the base directory; every
					// operation follows the link, so it is the empty file of the first mode
					store = runDir()
					os.WriteFile(filepath.Join(store, "kept.csv"), nil, 0o644)
					if os.Symlink(filepath.Join(store, "kept.csv"), filepath.Join(dir, "A.csv")) != nil {
						os.WriteFile(filepath.Join(dir, "A.csv"), nil, 0o644)
					}
					preexisting["A"] = true
				case "dir-at-Z":
					// the never-appended asset's file name is taken by a directory: an asset without
					// snapshots whose reads fail for another reason than "no such file"
					os.Mkdir(filepath.Join(dir, "Z.csv"), 0o755)
					preexisting["Z"] = true // Assets() goes by the directory listing: the name exists, without snapshots
				}
				repo = asset.NewFileSystemRepository(dir)
			case "sql":
				dbName = fmt.Sprintf("db-%d-%d", os.Getpid(), runDirSeq.Add(1))
				sdb = &simDB{failExec: map[int]bool{}}
				for _, f := range c.Faults {
					if f.Kind == "sql-exec-error" {
						sdb.failExec[f.At] = true // the database rejects the At-th INSERT of the history
					}
				}
				simDBsMu.Lock()
				simDBs[dbName] = sdb
				simDBsMu.Unlock()
				r, err := asset.NewSQLRepository("simsql", dbName, simDialect{})
				if err != nil {
					add("constructor-error", "-", err.Error())
					return
				}
				defer r.Close()
				repo = r
			}
			model := map[string][]*asset.Snapshot{}
			appended := map[string]bool{}
			collect := func(ch <-chan *asset.Snapshot) []*asset.Snapshot {
				var got []*asset.Snapshot
				for {
					consYield()
					v, ok := <-ch
					if !ok {
						return got
					}
					got = append(got, v)
				}
			}
			same := func(got, want []*asset.Snapshot) (bool, string) {
				if len(got) != len(want) {
					return false, fmt.Sprintf("%d snapshots returned, the model has %d", len(got), len(want))
				}
				for i := range got {
					if !snapEq(got[i], want[i]) {
						return false, fmt.Sprintf("snapshot %d is %+v, the model has %+v", i, *got[i], *want[i])
					}
				}
				return true, ""
			}
			prev := "start"
			var held <-chan *asset.Snapshot
			var heldWant []*asset.Snapshot
			heldAt := -1
			for i, op := range c.Ops {
				if c.Mode == "long-Z" && op.Name == "Z" {
					op.Name = strings.Repeat("z", 300) // a never-appended name too long for a file name
				}
				regime := prev + ">" + op.Op
				known := appended[op.Name] || preexisting[op.Name]
				holds := len(model[op.Name]) > 0
				result := "ok"
				switch op.Op {
				case "append":
					snaps := genRepoSnapshots(op)
					if op.Half && len(snaps) > 0 && c.Impl != "sql" {
						// the provider delivers one bar twice in a row (the list of appended snapshots
						// then holds it twice; the SQL schema keys rows by date and is left out)
						k := int(op.Seed % int64(len(snaps)))
						dup := *snaps[k]
						snaps = append(snaps[:k+1], append([]*asset.Snapshot{&dup}, snaps[k+1:]...)...)
						st.Faults["snapshot-delivered-twice-in-a-row"]++
					}
					ch := make(chan *asset.Snapshot, c.Cap)
					pre := 0
					if op.Seed%3 == 0 {
						// the caller has queued what fits into the channel before it calls Append
						for pre < len(snaps) && pre < c.Cap {
							ch <- snaps[pre]
							pre++
						}
						if pre > 0 {
							st.Faults["stream-with-values-queued-before-the-call"]++
						}
					}
					simrt.GoKind("prod", func() {
						for _, v := range snaps[pre:] {
							prodYield()
							ch <- v
						}
						simrt.Yield(-3, "prod-close")
						close(ch)
					})
					firedBefore := plan.TotalFired()
					sqlBefore := 0
					if sdb != nil {
						sqlBefore = sdb.fired()
					}
					err := repo.Append(op.Name, ch)
					if sdb != nil && sdb.fired() > sqlBefore {
						// the database rejected an INSERT of this Append: the Append must not acknowledge
						ioFault = true
						st.Faults["sql-exec-error"] += sdb.fired() - sqlBefore
						if err == nil {
							add("io-error-not-reported", regime, fmt.Sprintf("op %d: Append(%s, %d snapshots) returned nil although the database rejected an INSERT", i, op.Name, op.N))
						} else {
							st.Probes["io-error-reported-by-append"]++
						}
						return
					}
					if fired := plan.TotalFired() - firedBefore; fired > 0 {
						// the disk filled up (or the close failed) inside this Append: it may fail or lose
						// what it had not acknowledged, but it must not acknowledge (return nil)
						ioFault = true
						if err == nil {
							add("io-error-not-reported", regime, fmt.Sprintf("op %d: Append(%s) returned nil although %d injected write/close faults fired (%v)", i, op.Name, fired, plan.FiredKinds()))
						} else {
							st.Probes["io-error-reported-by-append"]++
						}
						return
					}
					if err != nil {
						add("append-error", regime, fmt.Sprintf("op %d: %v", i, err))
						return
					}
					model[op.Name] = append(model[op.Name], snaps...)
					appended[op.Name] = true
					st.Faults["read-issued-right-after-append-returned"]++
					if len(model[op.Name]) > len(snaps) && len(snaps) > 0 && snaps[0].Date.Before(model[op.Name][len(model[op.Name])-len(snaps)-1].Date) {
						st.Probes["backfilling-appends"]++
					}
				case "get", "getsince":
					var ch <-chan *asset.Snapshot
					var err error
					want := model[op.Name]
					if op.Op == "get" {
						ch, err = repo.Get(op.Name)
					} else {
						bound := base2000.AddDate(0, 0, op.From)
						if op.Half {
							bound = bound.Add(12 * time.Hour)
						}
						if op.Zone != 0 {
							bound = bound.In(time.FixedZone(fmt.Sprintf("UTC%+d", op.Zone), op.Zone*3600))
							st.Probes["getsince-bound-in-another-zone"]++
						}
						ch, err = repo.GetSince(op.Name, bound)
						want = nil
						for _, sn := range model[op.Name] {
							if !sn.Date.Before(bound) {
								want = append(want, sn)
							}
						}
						st.Probes["getsince-boundaries"]++
					}
					if !known {
						result = "unknown-asset"
						if err == nil {
							got := collect(ch)
							add("unknown-asset-read-without-error", regime, fmt.Sprintf("op %d: %s of the never-appended asset %s returned a stream of %d snapshots and no error", i, op.Op, op.Name, len(got)))
							return
						}
						break
					}
					if err != nil {
						if !holds {
							result = "empty-asset-error"
							break // an asset appended with no snapshots may read as empty or as an error
						}
						add("read-error", regime, fmt.Sprintf("op %d: %s(%s): %v", i, op.Op, op.Name, err))
						return
					}
					if op.N == 1 && held == nil && i+1 < len(c.Ops) && !(c.Ops[i+1].Op == "append" && c.Ops[i+1].Name == op.Name) {
						// keep the stream open across the next operation (what it shows of a later
						// Append to the same asset is not specified, so that combination is left out)
						held, heldWant, heldAt = ch, want, i
						st.Faults["stream-held-open-across-the-next-operation"]++
						break
					}
					got := collect(ch)
					if ok, why := same(got, want); !ok {
						kind := "read-differs-from-model"
						if prev == "append" && len(got) < len(want) {
							kind = "append-not-visible-to-later-read"
						}
						add(kind, regime, fmt.Sprintf("op %d %s(%s): %s", i, op.Op, op.Name, why))
						return
					}
					st.Probes["reads-compared-with-model"]++
				case "lastdate":
					d, err := repo.LastDate(op.Name)
					if !holds {
						result = "no-snapshots"
						if err == nil {
							add("lastdate-without-error", regime, fmt.Sprintf("op %d: LastDate(%s) of an asset without snapshots returned %v and no error", i, op.Name, d))
							return
						}
						break
					}
					want := model[op.Name][len(model[op.Name])-1].Date
					if err != nil || !d.Equal(want) {
						kind := "lastdate-differs-from-model"
						if prev == "append" {
							kind = "append-not-visible-to-later-read"
						}
						add(kind, regime, fmt.Sprintf("op %d: LastDate(%s) = %v, %v; the model says %v", i, op.Name, d, err, want))
						return
					}
					st.Probes["reads-compared-with-model"]++
				case "assets":
					names, err := repo.Assets()
					if err != nil {
						add("assets-error", regime, err.Error())
						return
					}
					sort.Strings(names)
					set := map[string]bool{}
					for _, n := range names {
						if set[n] {
							add("assets-duplicate", regime, fmt.Sprintf("op %d: Assets() = %v", i, names))
							return
						}
						set[n] = true
						if !appended[n] && !preexisting[n] {
							add("assets-lists-never-appended-name", regime, fmt.Sprintf("op %d: Assets() = %v", i, names))
							return
						}
					}
					for n, sn := range model {
						if len(sn) > 0 && !set[n] {
							kind := "assets-misses-name-holding-snapshots"
							if prev == "append" {
								kind = "append-not-visible-to-later-read"
							}
							add(kind, regime, fmt.Sprintf("op %d: Assets() = %v but %s holds %d snapshots", i, names, n, len(sn)))
							return
						}
					}
					st.Probes["reads-compared-with-model"]++
				}
				if prev == "append" || op.Op == "append" {
					st.cell(c.Impl, regime, result, c.Policy.Name)
				}
				prev = op.Op
				if held != nil && heldAt < i {
					got := collect(held)
					held = nil
					if ok, why := same(got, heldWant); !ok {
						add("read-differs-from-model", "held>"+op.Op, fmt.Sprintf("op %d %s(%s), drained after op %d: %s", heldAt, c.Ops[heldAt].Op, c.Ops[heldAt].Name, i, why))
						return
					}
					st.Probes["held-streams-compared-with-model"]++
				}
			}
		})
	})
	if dir != "" {
		os.RemoveAll(dir)
		if store != "" {
			os.RemoveAll(store)
		}
	}
	if dbName != "" {
		simDBsMu.Lock()
		delete(simDBs, dbName)
		simDBsMu.Unlock()
	}
	st.noteSim(out)
	for k, v := range plan.FiredKinds() {
		st.Faults[k] += v
	}
	if c.Mode != "" {
		st.Faults["pre-existing-"+c.Mode]++
	}
	if out.Err != nil {
		return nil
	}
	if len(out.Panics) > 0 {
		add("panic", "-", fmt.Sprint(out.Panics))
		return vs
	}
	if !clientDone && len(vs) == 0 {
		add("hang", "-", "the client never finished; "+stuckSummary(out.Stuck))
		return vs
	}
	if len(vs) == 0 && !ioFault {
		if lib := out.LibStuck(); len(lib) > 0 {
			add("leak", "-", stuckSummary(lib))
		}
	}
	return vs
}

func histString(ops []OpSpec) string {
	s := "["
	for i, o := range ops {
		if i > 0 {
			s += " "
		}
		switch o.Op {
		case "append":
			s += fmt.Sprintf("append(%s,%d@day%d)", o.Name, o.N, o.From)
		case "getsince":
			h := ""
			if o.Half {
				h = ".5"
			}
			s += fmt.Sprintf("getsince(%s,day%d%s)", o.Name, o.From, h)
		case "assets":
			s += "assets"
		default:
			s += fmt.Sprintf("%s(%s)", o.Op, o.Name)
		}
	}
	return s + "]"
}
