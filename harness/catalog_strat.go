package harness

import (
	"fmt"
	"math/rand"
	"os"
	"reflect"
	"strings"

	"github.com/cinar/indicator/v2/momentum"
	"github.com/cinar/indicator/v2/strategy"
	"github.com/cinar/indicator/v2/strategy/compound"
	"github.com/cinar/indicator/v2/strategy/decorator"
	sm "github.com/cinar/indicator/v2/strategy/momentum"
	st "github.com/cinar/indicator/v2/strategy/trend"
	sv "github.com/cinar/indicator/v2/strategy/volatility"
	so "github.com/cinar/indicator/v2/strategy/volume"
	"github.com/cinar/indicator/v2/trend"
	"github.com/cinar/indicator/v2/volatility"
)

// StratEntity is one base strategy type of the catalogue.
type StratEntity struct {
	Name string
	NCfg int // number of ints Make understands besides the default (0 = default only)
	Make func(c []int) strategy.Strategy
}

// withField builds the default strategy and, for an explicit configuration, replaces the
// indicator it holds (an exported field a user may set) by one built from the indicator
// catalogue, so that strategies without a With-constructor are exercised off their defaults too.
func withField(mk func() strategy.Strategy, field, ind string) func(c []int) strategy.Strategy {
	return func(c []int) strategy.Strategy {
		s := mk()
		if c != nil {
			inst := indByName[ind].Make(c)
			reflect.ValueOf(s).Elem().FieldByName(field).Set(reflect.ValueOf(inst))
		}
		return s
	}
}

func desc(c []int) []int {
	d := sorted(c)
	for i, j := 0, len(d)-1; i < j; i, j = i+1, j-1 {
		d[i], d[j] = d[j], d[i]
	}
	return d
}

// BaseStrategies lists every constructor of a base strategy (registries and With-variants).
var BaseStrategies = []*StratEntity{
	{Name: "strategy.BuyAndHold", Make: func(c []int) strategy.Strategy { return strategy.NewBuyAndHoldStrategy() }},
	{Name: "trend.Alligator", NCfg: 3, Make: func(c []int) strategy.Strategy {
		if c == nil {
			return st.NewAlligatorStrategy()
		}
		d := desc(c)
		if (c[0]+c[1]+c[2])%3 == 0 {
			d = c // the constructor takes any three periods: the jaw need not be the slowest line
		}
		return st.NewAlligatorStrategyWith(d[0], d[1], d[2])
	}},
	{Name: "trend.Apo", NCfg: 2, Make: withField(func() strategy.Strategy { return st.NewApoStrategy() }, "Apo", "trend.Apo")},
	{Name: "trend.Aroon", NCfg: 1, Make: withField(func() strategy.Strategy { return st.NewAroonStrategy() }, "Aroon", "trend.Aroon")},
	{Name: "trend.Bop", Make: func(c []int) strategy.Strategy { return st.NewBopStrategy() }},
	{Name: "trend.Cci", NCfg: 1, Make: withField(func() strategy.Strategy { return st.NewCciStrategy() }, "Cci", "trend.Cci")},
	{Name: "trend.Dema", NCfg: 2, Make: func(c []int) strategy.Strategy {
		s := st.NewDemaStrategy()
		if c != nil {
			// no order between the two DEMAs is documented or needed: either may be the slower one
			s.Dema1.Ema1.Period, s.Dema1.Ema2.Period = c[0], c[0]
			s.Dema2.Ema1.Period, s.Dema2.Ema2.Period = c[1], c[1]
		}
		return s
	}},
	{Name: "trend.Envelope", NCfg: 1, Make: func(c []int) strategy.Strategy {
		if c == nil {
			return st.NewEnvelopeStrategy()
		}
		return st.NewEnvelopeStrategyWith(trend.NewEnvelope[F](trend.NewEmaWithPeriod[F](c[0]), 10))
	}},
	{Name: "trend.GoldenCross", NCfg: 2, Make: func(c []int) strategy.Strategy {
		if c == nil {
			return st.NewGoldenCrossStrategy()
		}
		s := sorted(c)
		return st.NewGoldenCrossStrategyWith(s[0], s[1])
	}},
	{Name: "trend.Kama", NCfg: 3, Make: func(c []int) strategy.Strategy {
		if c == nil {
			return st.NewKamaStrategy()
		}
		fs := sorted(c[1:3])
		return st.NewKamaStrategyWith(c[0], fs[0], fs[1])
	}},
	{Name: "trend.Kdj", NCfg: 3, Make: withField(func() strategy.Strategy { return st.NewKdjStrategy() }, "Kdj", "trend.Kdj")},
	{Name: "trend.Macd", NCfg: 3, Make: func(c []int) strategy.Strategy {
		if c == nil {
			return st.NewMacdStrategy()
		}
		s := sorted(c[:2])
		return st.NewMacdStrategyWith(s[0], s[1], c[2])
	}},
	{Name: "trend.Qstick", NCfg: 1, Make: withField(func() strategy.Strategy { return st.NewQstickStrategy() }, "Qstick", "momentum.Qstick")},
	{Name: "trend.Smma", NCfg: 2, Make: func(c []int) strategy.Strategy {
		if c == nil {
			return st.NewSmmaStrategy()
		}
		s := sorted(c)
		if (c[0]+c[1])%3 == 0 {
			s = c // the two lines are synchronised to the slower one whichever it is: "short" may be the longer period
		}
		return st.NewSmmaStrategyWith(s[0], s[1])
	}},
	{Name: "trend.Trima", NCfg: 2, Make: func(c []int) strategy.Strategy {
		s := st.NewTrimaStrategy()
		if c != nil {
			p := sorted(c)
			s.Short.Period, s.Long.Period = p[0], p[1]
		}
		return s
	}},
	{Name: "trend.TripleMovingAverageCrossover", NCfg: 3, Make: func(c []int) strategy.Strategy {
		if c == nil {
			return st.NewTripleMovingAverageCrossoverStrategy()
		}
		// the slow period has to be the longest; fast and medium may come in either order
		s := sorted(c)
		if c[0] > c[1] {
			return st.NewTripleMovingAverageCrossoverStrategyWith(s[1], s[0], s[2])
		}
		return st.NewTripleMovingAverageCrossoverStrategyWith(s[0], s[1], s[2])
	}},
	{Name: "trend.Trix", NCfg: 1, Make: withField(func() strategy.Strategy { return st.NewTrixStrategy() }, "Trix", "trend.Trix")},
	{Name: "trend.Tsi", NCfg: 3, Make: func(c []int) strategy.Strategy {
		if c == nil {
			return st.NewTsiStrategy()
		}
		return st.NewTsiStrategyWith(c[0], c[1], c[2])
	}},
	{Name: "trend.Vwma", NCfg: 1, Make: func(c []int) strategy.Strategy {
		s := st.NewVwmaStrategy()
		if c != nil {
			s.Vwma.Period, s.Sma.Period = c[0], c[0] // the constructor keeps both at the same period
		}
		return s
	}},
	{Name: "trend.WeightedClose", NCfg: 1, Make: func(c []int) strategy.Strategy {
		if c == nil {
			return st.NewWeightedCloseStrategy()
		}
		return st.NewWeightedCloseStrategyWith(c[0])
	}},
	{Name: "momentum.AwesomeOscillator", NCfg: 2, Make: withField(func() strategy.Strategy { return sm.NewAwesomeOscillatorStrategy() }, "AwesomeOscillator", "momentum.AwesomeOscillator")},
	{Name: "momentum.Rsi", NCfg: 1, Make: withField(func() strategy.Strategy { return sm.NewRsiStrategy() }, "Rsi", "momentum.Rsi")},
	{Name: "momentum.RsiWith", Make: func(c []int) strategy.Strategy { return sm.NewRsiStrategyWith(40, 60) }},
	{Name: "momentum.StochasticRsi", NCfg: 2, Make: withField(func() strategy.Strategy { return sm.NewStochasticRsiStrategy() }, "StochasticRsi", "momentum.StochasticRsi")},
	{Name: "momentum.StochasticRsiWith", Make: func(c []int) strategy.Strategy { return sm.NewStochasticRsiStrategyWith(0.3, 0.7) }},
	{Name: "momentum.TripleRsi", NCfg: 3, Make: func(c []int) strategy.Strategy {
		if c == nil {
			return sm.NewTripleRsiStrategy()
		}
		// the strategy aligns the RSI to the (much longer) SMA: the SMA's idle period must not be
		// shorter than the RSI's, as in the documented 5/200 setting
		return sm.NewTripleRsiStrategyWith(min(c[0], c[1]), max(c[0], c[1])+1, 1+c[2]%4, 60, 30, 50)
	}},
	{Name: "volatility.BollingerBands", NCfg: 1, Make: withField(func() strategy.Strategy { return sv.NewBollingerBandsStrategy() }, "BollingerBands", "volatility.BollingerBands")},
	{Name: "volatility.SuperTrend", NCfg: 1, Make: func(c []int) strategy.Strategy {
		if c == nil {
			return sv.NewSuperTrendStrategy()
		}
		return sv.NewSuperTrendStrategyWith(volatility.NewSuperTrendWithPeriod[F](c[0], 2))
	}},
	{Name: "volatility.SuperTrendEma", NCfg: 1, Make: func(c []int) strategy.Strategy {
		if c == nil {
			return sv.NewSuperTrendStrategyWith(volatility.NewSuperTrendWithMa[F](trend.NewEmaWithPeriod[F](7), 3))
		}
		return sv.NewSuperTrendStrategyWith(volatility.NewSuperTrendWithMa[F](trend.NewEmaWithPeriod[F](c[0]), 3))
	}},
	{Name: "volume.ChaikinMoneyFlow", NCfg: 1, Make: func(c []int) strategy.Strategy {
		if c == nil {
			return so.NewChaikinMoneyFlowStrategy()
		}
		return so.NewChaikinMoneyFlowStrategyWith(c[0])
	}},
	{Name: "volume.EaseOfMovement", NCfg: 1, Make: func(c []int) strategy.Strategy {
		if c == nil {
			return so.NewEaseOfMovementStrategy()
		}
		return so.NewEaseOfMovementStrategyWith(c[0])
	}},
	{Name: "volume.ForceIndex", NCfg: 1, Make: func(c []int) strategy.Strategy {
		if c == nil {
			return so.NewForceIndexStrategy()
		}
		return so.NewForceIndexStrategyWith(c[0])
	}},
	{Name: "volume.MoneyFlowIndex", NCfg: 1, Make: withField(func() strategy.Strategy { return so.NewMoneyFlowIndexStrategy() }, "MoneyFlowIndex", "volume.Mfi")},
	{Name: "volume.MoneyFlowIndexWith", Make: func(c []int) strategy.Strategy { return so.NewMoneyFlowIndexStrategyWith(70, 30) }},
	{Name: "volume.NegativeVolumeIndex", NCfg: 1, Make: func(c []int) strategy.Strategy {
		if c == nil {
			return so.NewNegativeVolumeIndexStrategy()
		}
		return so.NewNegativeVolumeIndexStrategyWith(c[0])
	}},
	{Name: "volume.WeightedAveragePrice", NCfg: 1, Make: func(c []int) strategy.Strategy {
		if c == nil {
			return so.NewWeightedAveragePriceStrategy()
		}
		return so.NewWeightedAveragePriceStrategyWith(c[0])
	}},
	{Name: "compound.MacdRsi", NCfg: 4, Make: func(c []int) strategy.Strategy {
		s := compound.NewMacdRsiStrategy()
		if c != nil {
			p := sorted(c[:2])
			s.MacdStrategy = st.NewMacdStrategyWith(p[0], p[1], c[2])
			s.RsiStrategy.Rsi = momentum.NewRsiWithPeriod[F](c[3])
		}
		return s
	}},
	{Name: "compound.MacdRsiWith", Make: func(c []int) strategy.Strategy { return compound.NewMacdRsiStrategyWith(40, 60) }},
}

var stratByName = map[string]*StratEntity{}

// Combinators (need Subs).
var combinators = []string{"strategy.And", "strategy.Or", "strategy.Majority", "strategy.Split",
	"decorator.Inverse", "decorator.NoLoss", "decorator.StopLoss", "registry.And", "registry.Split"}

// registryPair returns the members (i, j) of the k-th compound that AllAndStrategies /
// AllSplitStrategies build from n pairwise different strategies: every ordered pair of two
// different ones, first member in the outer loop.
func registryPair(n, k int) (int, int) {
	k %= n * (n - 1)
	i := k / (n - 1)
	j := k % (n - 1)
	if j >= i {
		j++
	}
	return i, j
}

func init() {
	for _, e := range BaseStrategies {
		stratByName[e.Name] = e
	}
}

// buildStrategy constructs the (possibly nested) strategy a SubSpec describes.
func buildStrategy(s SubSpec) strategy.Strategy {
	subs := make([]strategy.Strategy, len(s.Subs))
	for i, x := range s.Subs {
		if x.Same && i > 0 {
			subs[i] = subs[i-1] // one strategy value listed twice (registries share instances between compounds)
			continue
		}
		subs[i] = buildStrategy(x)
	}
	switch s.Entity {
	case "strategy.And":
		return strategy.NewAndStrategy("and", subs...)
	case "strategy.Or":
		return strategy.NewOrStrategy("or", subs...)
	case "strategy.Majority":
		return strategy.NewMajorityStrategyWith("majority", subs)
	case "strategy.Split":
		return strategy.NewSplitStrategy(subs[0], subs[1])
	case "registry.And", "registry.Split":
		if len(subs) < 2 {
			return subs[0] // shrunk below a pair
		}
		if s.Entity == "registry.Split" {
			return strategy.AllSplitStrategies(subs)[s.Cfg[0]%(len(subs)*(len(subs)-1))]
		}
		// the compound as the registry function builds it: one of the pairs over the members
		return strategy.AllAndStrategies(subs)[s.Cfg[0]%(len(subs)*(len(subs)-1))]
	case "decorator.Inverse":
		return decorator.NewInverseStrategy(subs[0])
	case "decorator.NoLoss":
		return decorator.NewNoLossStrategy(subs[0])
	case "decorator.StopLoss":
		return decorator.NewStopLossStrategy(subs[0], s.Pct)
	}
	e := stratByName[s.Entity]
	if e == nil {
		panic("unknown strategy entity " + s.Entity)
	}
	var c []int
	if len(s.Cfg) > 0 {
		c = s.Cfg
	}
	inst := e.Make(c)
	if s.Scale > 1 && len(s.Cfg) == 0 {
		scaleConfig(reflect.ValueOf(inst), s.Scale)
	}
	return inst
}

// specName is the structural name used as the violation entity: combinators keep their shape,
// configurations are left out.
func specName(s SubSpec) string {
	if len(s.Subs) == 0 {
		return s.Entity
	}
	parts := make([]string, len(s.Subs))
	for i, x := range s.Subs {
		parts[i] = specName(x)
	}
	return s.Entity + "(" + strings.Join(parts, ",") + ")"
}

func (c *Case) spec() SubSpec {
	return SubSpec{Entity: c.Entity, Cfg: c.Cfg, Scale: c.Scale, Subs: c.Subs, Pct: c.pct()}
}

func (c *Case) pct() float64 {
	if len(c.Param) > 0 {
		return float64(c.Param[0]) / 100
	}
	return 0.05
}

// genBaseSpec draws a base strategy with a configuration.
func genBaseSpec(rng *rand.Rand, allowDefault bool) SubSpec {
	e := BaseStrategies[rng.Intn(len(BaseStrategies))]
	s := SubSpec{Entity: e.Name}
	x := rng.Intn(100)
	switch {
	case e.NCfg > 0 && x < 50:
		s.Cfg = make([]int, e.NCfg)
		for i := range s.Cfg {
			s.Cfg[i] = 2 + rng.Intn(8)
			if rng.Intn(12) == 0 {
				s.Cfg[i] = 15 + rng.Intn(30) // longer than the usual defaults (14, 20, 26)
			}
			if rng.Intn(100) == 0 {
				s.Cfg[i] = 257 + rng.Intn(40) // longer than a trading year and than any default (255)
			}
			if rng.Intn(15) == 0 {
				s.Cfg[i] = 1 // the shortest window there is
			}
		}
	case x < 85 || !allowDefault:
		s.Scale = []int{2, 3, 4, 6, 8}[rng.Intn(5)]
	}
	return s
}

// deepTier: the thorough tier also draws three levels of combinators, more calls per instance,
// longer periods and larger channel capacities (the generators read it; cases are self-contained,
// so replay does not depend on it).
var deepTier = os.Getenv("VERIF_TIER") == "thorough"

func maxNest() int {
	if deepTier {
		return 3
	}
	return 2
}

// genStratSpec draws a strategy: base, compound or decorated, nesting depth <= 2 (thorough: 3).
func genStratSpec(rng *rand.Rand, depth int, allowDefault bool) SubSpec {
	x := rng.Intn(100)
	if depth >= maxNest() || x < 55 {
		return genBaseSpec(rng, allowDefault)
	}
	name := combinators[rng.Intn(len(combinators))]
	s := SubSpec{Entity: name}
	n := 1
	switch name {
	case "strategy.And", "strategy.Or", "strategy.Majority":
		n = 1 + rng.Intn(4)
		if rng.Intn(25) == 0 {
			n = 9 + rng.Intn(12) // a committee: more members than any fixed pool of workers or slots
		}
	case "strategy.Split":
		n = 2
	case "registry.And", "registry.Split":
		// three members of different types (the registry functions tell strategies apart by
		// identity; values of a zero-size type would count as one)
		s.Cfg = []int{rng.Intn(6)}
		used := map[string]bool{"strategy.BuyAndHold": true}
		for len(s.Subs) < 3 {
			b := genBaseSpec(rng, allowDefault)
			if !used[b.Entity] {
				used[b.Entity] = true
				s.Subs = append(s.Subs, b)
			}
		}
		return s
	case "decorator.StopLoss":
		s.Pct = []float64{0.01, 0.05, 0.2, 1, 2}[rng.Intn(5)] // 1 and 2: a stop that can never trigger
	}
	if strings.HasPrefix(name, "decorator.") && depth+1 < maxNest() && rng.Intn(5) == 0 {
		// the same decorator twice: Inverse(Inverse(x)), NoLoss(NoLoss(x)) ...
		inner := SubSpec{Entity: name, Pct: s.Pct, Subs: []SubSpec{genBaseSpec(rng, allowDefault)}}
		s.Subs = []SubSpec{inner}
		return s
	}
	for i := 0; i < n; i++ {
		if depth+1 < maxNest() && n < 9 && rng.Intn(4) == 0 {
			s.Subs = append(s.Subs, genStratSpec(rng, depth+1, allowDefault))
		} else {
			s.Subs = append(s.Subs, genBaseSpec(rng, allowDefault))
		}
	}
	if n >= 2 && rng.Intn(8) == 0 {
		s.Subs[1] = s.Subs[0]
		s.Subs[1].Same = true
	}
	return s
}

func setSpec(c *Case, s SubSpec) {
	c.Entity, c.Cfg, c.Scale, c.Subs = s.Entity, s.Cfg, s.Scale, s.Subs
	if s.Pct > 0 {
		c.Param = []int{int(s.Pct * 100)}
	}
}

func describeSpec(s SubSpec) string {
	return fmt.Sprintf("%s cfg=%v scale=%d", specName(s), s.Cfg, s.Scale)
}
