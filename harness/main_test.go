package harness

import (
	"io"
	"log"
	"log/slog"
	"os"
	"testing"
	_ "time/tzdata" // zones with daylight saving for C12, independent of the host's zoneinfo
)

// TestMain dispatches on VMODE: worker (default), replay, aggregate.
func TestMain(m *testing.M) {
	slog.SetDefault(slog.New(slog.NewTextHandler(io.Discard, nil)))
	log.SetOutput(io.Discard)
	os.Exit(m.Run())
}

func TestSim(t *testing.T) {
	theT = t
	loadSites(envOr("VSITES", "SITES.txt"))
	var rc int
	switch envOr("VMODE", "worker") {
	case "worker":
		rc = workerMain()
	case "replay":
		rc = replayMain()
	case "aggregate":
		rc = aggregateMain()
	case "history":
		rc = historyMain()
	case "histchild":
		rc = histChildMain()
	case "procs":
		rc = procsMain()
	default:
		rc = 2
	}
	if rc != 0 {
		os.Exit(rc)
	}
}
