package harness

import (
	"encoding/json"
	"fmt"
	"os"
	"path/filepath"
	"regexp"
	"sort"
	"strings"
)

// The race-detector companion: the same seeded workloads run un-instrumented and free-running
// under `go test -race` (still inside a synctest bubble, so that a hang shows as quiescence and
// not as a time-out). This is monitoring of real executions - the schedule is not replayable,
// only the workload is - and is used only for the "no data race" clause of C09, C12 and C13.

const modulePath = "github.com/cinar/indicator/v2/"

type raceReport struct {
	Case   json.RawMessage
	Frames []string // first library frame of each of the two conflicting accesses
	Text   string
}

var frameRe = regexp.MustCompile(`^\s+(github\.com/cinar/indicator/v2/[^\s(]+(?:\([^)]*\))?[^\s(]*)\(`)

// parseRaces extracts the data-race reports (and fatal concurrent-map errors) of one log.
func parseRaces(log string) []raceReport {
	var out []raceReport
	var curCase json.RawMessage
	lines := strings.Split(log, "\n")
	for i := 0; i < len(lines); i++ {
		l := lines[i]
		if strings.HasPrefix(l, "RACECASE ") {
			curCase = json.RawMessage(strings.TrimPrefix(l, "RACECASE "))
			continue
		}
		if strings.HasPrefix(l, "fatal error: concurrent map") {
			r := raceReport{Case: curCase, Frames: []string{"runtime: " + strings.TrimPrefix(l, "fatal error: ")}}
			for j := i; j < len(lines) && j < i+80; j++ {
				if m := frameRe.FindStringSubmatch("  " + strings.TrimSpace(lines[j])); m != nil {
					r.Frames = append(r.Frames, m[1])
					break
				}
			}
			r.Text = strings.Join(lines[i:min(len(lines), i+30)], "\n")
			out = append(out, r)
			continue
		}
		if !strings.HasPrefix(l, "WARNING: DATA RACE") {
			continue
		}
		r := raceReport{Case: curCase}
		j := i + 1
		inAccess := false
		got := false
		for ; j < len(lines) && !strings.HasPrefix(lines[j], "=================="); j++ {
			t := lines[j]
			switch {
			case strings.Contains(t, " by goroutine ") || strings.Contains(t, " by main goroutine"):
				inAccess, got = true, false
			case strings.HasPrefix(t, "Goroutine "):
				inAccess = false
			case inAccess && !got:
				if m := frameRe.FindStringSubmatch(t); m != nil {
					r.Frames = append(r.Frames, m[1])
					got = true
				}
			}
		}
		r.Text = strings.Join(lines[i:min(j, i+60)], "\n")
		i = j
		if len(r.Frames) > 0 { // at least one access inside the library
			out = append(out, r)
		}
	}
	return out
}

// raceSummary is merged into the evidence of C09/C12/C13.
type raceSummary struct {
	Processes      int            `json:"processes"`
	Cases          int            `json:"workload_cases"`
	Sims           int            `json:"free_running_executions"`
	Gomaxprocs     []int          `json:"gomaxprocs"`
	Reports        int            `json:"race_reports"`
	Distinct       map[string]int `json:"distinct_races"`
	Crashes        int            `json:"crashed_processes"`
	OracleFailures int            `json:"oracle_failures_in_free_running_executions"`
	Note           string         `json:"note"`
}

// aggregateRaces reads the race-phase directory: worker stats (r*.json) and logs (racelog*.txt).
func aggregateRaces(prop, dir, replayDir string, known Known) (sum raceSummary, violations []ViolationReport, knownHits map[string]string) {
	knownHits = map[string]string{}
	sum.Distinct = map[string]int{}
	sum.Note = "un-instrumented library, free-running goroutines under the Go race detector inside a synctest bubble; monitoring, not controlled simulation: the workload is seeded and replayable, the schedule is not"
	stats, _ := filepath.Glob(filepath.Join(dir, "r*.json"))
	for _, f := range stats {
		b, err := os.ReadFile(f)
		if err != nil {
			continue
		}
		var s Stats
		if json.Unmarshal(b, &s) == nil {
			sum.Cases += s.Evaluations
			sum.Sims += s.Sims
			// oracle failures of free-running executions are failures of real executions
			for _, v := range s.Violations {
				v.Detail = "[free-running, un-instrumented library] " + v.Detail
				violations = append(violations, v)
				sum.OracleFailures++
			}
			for k, v := range s.KnownHits {
				if _, ok := knownHits[k]; !ok {
					knownHits[k] = v
				}
			}
		}
	}
	gm := map[int]bool{}
	logs, _ := filepath.Glob(filepath.Join(dir, "racelog*.txt"))
	sort.Strings(logs)
	seen := map[string]bool{}
	for _, f := range logs {
		sum.Processes++
		var g int
		if _, err := fmt.Sscanf(filepath.Base(f), "racelog.g%d.", &g); err == nil {
			gm[g] = true
		}
		b, err := os.ReadFile(f)
		if err != nil {
			continue
		}
		text := string(b)
		reps := parseRaces(text)
		if strings.Contains(text, "\npanic: ") || strings.Contains(text, "fatal error: ") {
			sum.Crashes++
		}
		for _, r := range reps {
			sum.Reports++
			fr := append([]string{}, r.Frames...)
			sort.Strings(fr)
			entity := "race:" + strings.Join(fr, " <-> ")
			entity = strings.ReplaceAll(entity, modulePath, "")
			sum.Distinct[entity]++
			v := Violation{Prop: prop, Entity: entity, Kind: "data-race", Regime: "free-running",
				Detail: "the Go race detector reported conflicting unsynchronised accesses at " + strings.Join(fr, " and ")}
			if kf, ok := known.Match(v); ok {
				if _, s := knownHits[kf.ID()]; !s {
					knownHits[kf.ID()] = kf.What + " [" + v.Detail + "]"
				}
				continue
			}
			if seen[v.Key()] {
				continue
			}
			seen[v.Key()] = true
			os.MkdirAll(replayDir, 0o755)
			path := filepath.Join(replayDir, fmt.Sprintf("%s-race-%s-%x.json", prop, sanitize(entity), splitmix(uint64(len(entity))*1315423911+hashString(entity))&0xffffff))
			var cs Case
			json.Unmarshal(r.Case, &cs)
			cs.Prop = prop
			rf := map[string]any{"violation": v, "case": &cs, "race": true, "race_report": r.Text,
				"note": "replay: /verif/check " + prop + " replay " + path + " re-runs this workload free-running under -race (up to 30 executions at GOMAXPROCS 4 and 16); the schedule itself is not replayable"}
			jb, _ := json.MarshalIndent(rf, "", " ")
			os.WriteFile(path, jb, 0o644)
			violations = append(violations, ViolationReport{Violation: v, Replay: path, Seed: cs.Seed})
		}
	}
	for g := range gm {
		sum.Gomaxprocs = append(sum.Gomaxprocs, g)
	}
	sort.Ints(sum.Gomaxprocs)
	return
}

// raceReplayMain re-runs the workload of a race replay file repeatedly; the -race runtime prints
// the report, the check script greps for it.
func raceReplayMain(rf *ReplayFile) int {
	ck := checks[rf.Case.Prop]
	if ck == nil {
		return 2
	}
	for i := 0; i < 30; i++ {
		st := newStats()
		runCase(ck, rf.Case, st)
	}
	return 0
}

func hashString(s string) uint64 {
	h := uint64(1469598103934665603)
	for i := 0; i < len(s); i++ {
		h = (h ^ uint64(s[i])) * 1099511628211
	}
	return h
}
