package harness

import (
	"encoding/json"
	"fmt"
	"os"
	"path/filepath"
	"sort"
)

// aggregateMain merges the worker result files of one check run, writes the evidence file and
// prints the verdict lines. Exit: 0 held, 1 violation, 2 infrastructure trouble.
func aggregateMain() int {
	prop := os.Getenv("VCHECK")
	dir := os.Getenv("VOUTDIR")
	evidence := os.Getenv("VEVIDENCE")
	tier := envOr("VERIF_TIER", "quick")
	seed := envInt("VERIF_SEED", 1)
	wall := float64(envInt("VWALL_S", 0))
	workers := envInt("VWORKERS", 1)
	ck := checks[prop]
	if ck == nil {
		fmt.Fprintf(os.Stderr, "unknown check %q\n", prop)
		return 2
	}
	files, _ := filepath.Glob(filepath.Join(dir, "w*.json"))
	sort.Strings(files)
	tot := newStats()
	var violations []ViolationReport
	var infra []string
	var workerWall float64
	for _, f := range files {
		b, err := os.ReadFile(f)
		if err != nil {
			infra = append(infra, err.Error())
			continue
		}
		var s Stats
		if err := json.Unmarshal(b, &s); err != nil {
			infra = append(infra, f+": "+err.Error())
			continue
		}
		tot.Evaluations += s.Evaluations
		tot.Sims += s.Sims
		tot.Steps += s.Steps
		tot.SimSeconds += s.SimSeconds
		tot.NonFifo += s.NonFifo
		workerWall += s.WallS
		for k, v := range s.Faults {
			tot.Faults[k] += v
		}
		for k, v := range s.Probes {
			tot.Probes[k] += v
		}
		for k, v := range s.Skipped {
			tot.Skipped[k] += v
		}
		for k, v := range s.Entities {
			tot.Entities[k] += v
		}
		for _, k := range s.CellList {
			tot.Cells[k] = struct{}{}
		}
		for _, k := range s.SchedList {
			tot.Scheds[k] = struct{}{}
		}
		for _, k := range s.StateList {
			tot.States[k] = struct{}{}
		}
		for k, v := range s.KnownHits {
			if _, ok := tot.KnownHits[k]; !ok {
				tot.KnownHits[k] = v
			}
		}
		if len(tot.Samples) < 8 {
			for _, x := range s.Samples {
				if len(tot.Samples) < 8 {
					tot.Samples = append(tot.Samples, x)
				}
			}
		}
		violations = append(violations, s.Violations...)
		infra = append(infra, s.Infra...)
	}
	// race-detector companion (C09, C12, C13)
	var race *raceSummary
	if rd := os.Getenv("VRACEDIR"); rd != "" {
		rs, rv, rk := aggregateRaces(prop, rd, envOr("VREPLAYDIR", "/verif/out/replays"), loadKnown(envOr("VKNOWN", "/verif/known_findings.json")))
		race = &rs
		violations = append(violations, rv...)
		for k, v := range rk {
			if _, ok := tot.KnownHits[k]; !ok {
				tot.KnownHits[k] = v
			}
		}
		if rs.Processes == 0 || (rs.Cases == 0 && rs.Reports == 0) {
			infra = append(infra, "race-detector companion did not run")
		}
	}
	// verdict lines
	var khKeys []string
	for k := range tot.KnownHits {
		khKeys = append(khKeys, k)
	}
	sort.Strings(khKeys)
	for _, k := range khKeys {
		fmt.Printf("KNOWN-FINDING: property=%s %s :: %s\n", prop, k, tot.KnownHits[k])
	}
	seen := map[string]bool{}
	nviol := 0
	for _, v := range violations {
		if seen[v.Key()] {
			continue
		}
		seen[v.Key()] = true
		nviol++
		fmt.Printf("violation: %s: %s\n", v.Key(), v.Detail)
		fmt.Printf("VIOLATION property=%s replay=%s\n", prop, v.Replay)
	}
	real, stub := ck.Components()
	perHour := 0.0
	if wall > 0 {
		perHour = float64(tot.Sims) / wall * 3600
	}
	var zero []string
	for _, p := range expectedProbes[prop] {
		if tot.Probes[p] == 0 && tot.Faults[p] == 0 {
			zero = append(zero, p)
		}
	}
	ents := len(tot.Entities)
	samples := make([]any, 0, len(tot.Samples))
	for _, s := range tot.Samples {
		var x any
		json.Unmarshal(s, &x)
		samples = append(samples, x)
	}
	if len(samples) == 0 {
		samples = append(samples, "no case was generated")
	}
	ev := map[string]any{
		"property_id": prop,
		"tier":        tier,
		"seed":        seed,
		"level":       "exploration",
		"coverage": map[string]any{
			"evaluations":               tot.Evaluations,
			"distinct_nontrivial":       len(tot.Cells),
			"rule":                      ck.Rule(),
			"samples":                   samples,
			"simulated_runs":            tot.Sims,
			"simulated_runs_per_hour":   int64(perHour),
			"seeds":                     tot.Evaluations,
			"seeds_per_hour":            int64(float64(tot.Evaluations) / maxf(wall, 1) * 3600),
			"scheduling_steps":          tot.Steps,
			"non_fifo_decisions":        tot.NonFifo,
			"simulated_seconds_covered": tot.SimSeconds,
			"distinct_interleavings":    len(tot.Scheds),
			"interleaving_measure":      "hash of the full decision list (task released at every step) of a run",
			"distinct_quiescent_states": len(tot.States),
			"fault_kinds_fired":         tot.Faults,
			"reach_probes":              tot.Probes,
			"probes_stuck_at_zero":      zero,
			"not_evaluated":             tot.Skipped,
			"distinct_entities":         ents,
			"components_real":           real,
			"components_stub":           stub,
			"known_findings_hit":        khKeys,
			"workers":                   workers,
			"worker_cpu_seconds":        workerWall,
			"infrastructure_errors":     len(infra),
		},
		"assumptions": []string{
			"the AST instrumenter preserves the semantics of the library (self-test: the repository's own tests pass on the instrumented copy; controlled outputs equal canonical outputs)",
			"seeded search over schedules, stream ends and configurations: a clean batch is evidence, not proof",
			"code between two synchronisation points of different tasks runs concurrently and is not interleaved by the controller; unsynchronised shared memory is left to the race-detector companion where a property has a race clause",
		},
		"wall_s":     wall,
		"violations": nviol,
	}
	if race != nil {
		ev["coverage"].(map[string]any)["race_monitor"] = race
	}
	b, _ := json.MarshalIndent(ev, "", " ")
	if evidence != "" {
		os.MkdirAll(filepath.Dir(evidence), 0o755)
		if err := os.WriteFile(evidence, b, 0o644); err != nil {
			fmt.Fprintln(os.Stderr, err)
			return 2
		}
	}
	fmt.Printf("summary: property=%s tier=%s seed=%d cases=%d sims=%d steps=%d cells=%d interleavings=%d known=%d violations=%d infra=%d wall=%.0fs\n",
		prop, tier, seed, tot.Evaluations, tot.Sims, tot.Steps, len(tot.Cells), len(tot.Scheds), len(khKeys), nviol, len(infra), wall)
	for i, e := range infra {
		if i < 5 {
			fmt.Printf("infrastructure: %s\n", e)
		}
	}
	if nviol > 0 {
		return 1
	}
	if len(infra) > 0 {
		return 2
	}
	if tot.Evaluations == 0 || len(files) == 0 {
		fmt.Println("infrastructure: no case was evaluated")
		return 2
	}
	return 0
}

func maxf(a, b float64) float64 {
	if a > b {
		return a
	}
	return b
}

// expectedProbes lists, per check, the probes and fault kinds that a healthy run must hit.
var expectedProbes = map[string][]string{
	"C02": {"eof-before-warm-up", "counts-checked"},
	"C03": {"cases-identical-for-every-GOMAXPROCS", "eof-before-warm-up", "unequal-eof", "compared-with-canonical", "buffered-inputs"},
	"C04": {"producer-stalled-quiescence-observations", "eof-at-cut-point", "suffix-altered-after-cut-point", "cases-proved-by-causality", "cases-with-late-positions", "prefix-runs-compared", "suffix-runs-compared"},
	"C05": {"eof-before-warm-up", "action-streams-checked", "decorator-warm-up-checked"},
	"C09": {"calls-alive-at-once", "instance-reused-after-completed-call", "calls-compared-with-fresh-instance", "reports-compared-with-fresh-instance", "canaries-identical-in-all-process-histories", "process-history-orders(fresh-process-each)"},
	"C10": {"read-issued-right-after-append-returned", "reads-compared-with-model", "getsince-boundaries", "backfilling-appends", "pre-existing-empty-file-A", "pre-existing-header-only-A", "fs-write-error", "fs-close-error", "sql-exec-error", "io-error-reported-by-append", "getsince-bound-in-another-zone"},
	"C11": {"file-compared-with-model", "shorter-write-over-longer-file", "permuted-header-documents-read", "json-roundtrips", "fragmented-reads", "append-to-missing-file-rejected", "fs-write-error", "fs-close-error", "io-error-reported-by-operation"},
	"C19": {"read-error-fired", "http-transport-error", "http-non-200-status", "unreadable-file:missing", "unreadable-file:directory", "unreadable-file:symlink-to-directory", "malformed-document", "fragmented-reads", "records-compared-with-reference-decode", "fs-read-error"},
	"C12": {"repo-getsince-error", "repo-append-error", "timer-fired", "timer-fired-while-busy", "runs-compared-with-model", "idempotence-runs", "multi-worker-runs", "dates-in-a-daylight-saving-zone", "target-asset-registered-by-empty-file"},
	"C13": {"window-cuts-inside-data", "asset-missing-in-repository", "asset-empty", "multi-worker-runs", "protocol-histories-checked", "data-reports-checked", "html-reports-checked", "rankings-checked-on-exact-outcomes", "second-run-on-the-same-backtest-and-report"},
	"C14": {"reports-rendered", "rows-compared-with-compute-outcome", "buffered-report-input", "step-response-reports-compared"},
	"C16": {"unequal-eof", "empty-input", "eof-within-parameter-window", "model-compared"},
}
