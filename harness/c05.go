package harness

import (
	"fmt"
	"math/rand"

	"github.com/cinar/indicator/v2/strategy"
)

// C05: strategies emit exactly one action per snapshot, Hold through the warm-up.
type c05 struct{}

func init() { register(c05{}) }

func (c05) ID() string { return "C05" }

func (c05) Rule() string {
	return "case = (strategy: every registry entry and With-constructor, And/Or/Majority/Split over 1-4 sub-strategies, Inverse/No-Loss/Stop-Loss, nesting <= 2; configuration; n snapshots drawn around the warm-up S; capacity; scheduling policy+seed); " +
		"S is what the strategy declares operationally: the number of Holds it emits on an empty input; a cell (strategy shape, configuration class, n relative to S, policy) is non-trivial when n <= S+2 or the schedule had a non-FIFO decision; distinct_nontrivial counts distinct cells"
}

func (c05) Components() (real, stub []string) { return c03{}.Components() }

func (c05) Gen(rng *rand.Rand, tier string, k int) *Case {
	c := genStratCase(rng, tier)
	if rng.Intn(8) == 0 {
		c.Shape = ShapeGlitch
	}
	return c
}

func (c05) Shrinks(c *Case) []*Case { return pipeShrinks(c) }

func (c05) Run(c *Case, st *Stats) []Violation {
	name := specName(c.spec())
	S := measureWarmup(c)
	if S < 0 {
		st.Skipped["not-evaluated:empty-input-run-did-not-terminate(C03)"]++
		return nil
	}
	r := runStrat(c, c.pipeOpts())
	n := c.Lens[0]
	st.noteSim(&r.SimOut)
	regime := "n>=warmup"
	if n < S {
		regime = "n<warmup"
		st.Faults["eof-before-warm-up"]++
	}
	if n <= S+2 || r.NonFifo > 0 {
		cfgClass := "default"
		if len(c.Cfg) > 0 {
			cfgClass = fmt.Sprint(c.Cfg)
		} else if c.Scale > 1 {
			cfgClass = fmt.Sprintf("scaled/%d", c.Scale)
		}
		st.cell(name, cfgClass, nClass(n, S), c.Policy.Name)
	}
	if r.Err != nil {
		return nil
	}
	if !r.Built || !allTrue(r.Closed) {
		st.Skipped["not-evaluated:run-did-not-terminate(C03)"]++
		return nil
	}
	acts := r.Outs[0]
	desc := fmt.Sprintf("%s cfg=%v scale=%d warmup=%d n=%d cap=%d policy=%s: ", name, c.Cfg, c.Scale, S, n, c.Cap, c.Policy.Name)
	var vs []Violation
	add := func(kind, detail string) {
		vs = append(vs, Violation{Prop: "C05", Entity: name, Kind: kind, Regime: regime, Detail: desc + detail, Decisions: r.Decisions})
	}
	for i, a := range acts {
		if a != strategy.Buy && a != strategy.Sell && a != strategy.Hold {
			add("bad-action", fmt.Sprintf("action %d is %d", i, a))
			break
		}
	}
	// Decorators zip the inner actions with the closings, so on an empty input they emit nothing
	// and their operational warm-up reads 0; the warm-up during which only Holds may appear is the
	// one of the strategy they wrap (Inverse, No-Loss and Stop-Loss cannot act before it does).
	if H := holdWarmup(c.spec()); H > S && n >= H {
		for i := 0; i < H && i < len(acts); i++ {
			if acts[i] != strategy.Hold {
				add("non-hold-in-warmup", fmt.Sprintf("action %d is %d during the warm-up of %d snapshots of the wrapped strategy", i, acts[i], H))
				break
			}
		}
		st.Probes["decorator-warm-up-checked"]++
	}
	if n >= S {
		if len(acts) > n {
			add(fmt.Sprintf("surplus+%d", len(acts)-n), fmt.Sprintf("%d actions for %d snapshots", len(acts), n))
		} else if len(acts) < n {
			add("missing", fmt.Sprintf("%d actions for %d snapshots", len(acts), n))
		}
		for i := 0; i < S && i < len(acts); i++ {
			if acts[i] != strategy.Hold {
				add("non-hold-in-warmup", fmt.Sprintf("action %d is %d during the warm-up of %d", i, acts[i], S))
				break
			}
		}
	} else {
		if len(acts) < n {
			add("missing", fmt.Sprintf("%d actions for %d snapshots (shorter than warm-up)", len(acts), n))
		}
		for i, a := range acts {
			if a != strategy.Hold {
				add("non-hold-in-warmup", fmt.Sprintf("action %d is %d although the input (%d) is shorter than the warm-up %d", i, a, n, S))
				break
			}
		}
	}
	st.Probes["action-streams-checked"]++
	return vs
}

// holdWarmup returns the operational warm-up of the strategy a chain of decorators wraps.
func holdWarmup(s SubSpec) int {
	switch s.Entity {
	case "decorator.Inverse", "decorator.NoLoss", "decorator.StopLoss":
		return holdWarmup(s.Subs[0])
	}
	c := &Case{}
	setSpec(c, s)
	return measureWarmup(c)
}
