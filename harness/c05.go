package harness

import (
	"fmt"
	"math/rand"
	"simrt"

	"github.com/cinar/indicator/v2/strategy"
)

// C05: strategies emit exactly one action per snapshot, Hold through the warm-up.
type c05 struct{}

func init() { register(c05{}) }

func (c05) ID() string { return "C05" }

func (c05) Rule() string {
	return "case = (strategy: every registry entry and With-constructor, And/Or/Majority/Split over 1-4 sub-strategies, Inverse/No-Loss/Stop-Loss, nesting <= 2; configuration; n snapshots drawn around the warm-up S; capacity; scheduling policy+seed); " +
		"S is what the strategy declares operationally: the number of Holds it emits on an empty input; a cell (strategy shape, configuration class, n relative to S, policy) is non-trivial when n <= S+2 or the schedule had a non-FIFO decision; distinct_nontrivial counts distinct cells"
}

func (c05) Components() (real, stub []string) { return c03{}.Components() }

func (c05) Gen(rng *rand.Rand, tier string, k int) *Case {
	c := genStratCase(rng, tier)
	if rng.Intn(8) == 0 {
		c.Shape = ShapeGlitch
	} else if rng.Intn(12) == 0 {
		c.Shape = ShapeLateStart
	} else if rng.Intn(12) == 0 {
		c.Shape = ShapeCloseOnly
	}
	if rng.Intn(12) == 0 {
		c.Variant = 3 // every non-period parameter (thresholds included) zero
	}
	return c
}

func (c05) Shrinks(c *Case) []*Case { return pipeShrinks(c) }

func (c05) Run(c *Case, st *Stats) []Violation {
	name := specName(c.spec())
	S := measureWarmup(c)
	if S < 0 {
		st.Skipped["not-evaluated:empty-input-run-did-not-terminate(C03)"]++
		return nil
	}
	r := runStrat(c, c.pipeOpts())
	n := c.Lens[0]
	st.noteSim(&r.SimOut)
	regime := "n>=warmup"
	if n < S {
		regime = "n<warmup"
		st.Faults["eof-before-warm-up"]++
	}
	if n <= S+2 || r.NonFifo > 0 {
		cfgClass := "default"
		if len(c.Cfg) > 0 {
			cfgClass = fmt.Sprint(c.Cfg)
		} else if c.Scale > 1 {
			cfgClass = fmt.Sprintf("scaled/%d", c.Scale)
		}
		st.cell(name, cfgClass, nClass(n, S), c.Policy.Name)
	}
	if r.Err != nil {
		return nil
	}
	if !r.Built || !allTrue(r.Closed) {
		st.Skipped["not-evaluated:run-did-not-terminate(C03)"]++
		return nil
	}
	acts := r.Outs[0]
	desc := fmt.Sprintf("%s cfg=%v scale=%d warmup=%d n=%d cap=%d policy=%s: ", name, c.Cfg, c.Scale, S, n, c.Cap, c.Policy.Name)
	var vs []Violation
	add := func(kind, detail string) {
		vs = append(vs, Violation{Prop: "C05", Entity: name, Kind: kind, Regime: regime, Detail: desc + detail, Decisions: r.Decisions})
	}
	for i, a := range acts {
		if a != strategy.Buy && a != strategy.Sell && a != strategy.Hold {
			add("bad-action", fmt.Sprintf("action %d is %d", i, a))
			break
		}
	}
	// Decorators zip the inner actions with the closings, so on an empty input they emit nothing
	// and their operational warm-up reads 0; the warm-up during which only Holds may appear is the
	// one of the strategy they wrap (Inverse, No-Loss and Stop-Loss cannot act before it does).
	if H := holdWarmup(c.spec()); H > S && n >= H {
		for i := 0; i < H && i < len(acts); i++ {
			if acts[i] != strategy.Hold {
				add("non-hold-in-warmup", fmt.Sprintf("action %d is %d during the warm-up of %d snapshots of the wrapped strategy", i, acts[i], H))
				break
			}
		}
		st.Probes["decorator-warm-up-checked"]++
	}
	if n >= S {
		if len(acts) > n {
			add(fmt.Sprintf("surplus+%d", len(acts)-n), fmt.Sprintf("%d actions for %d snapshots", len(acts), n))
		} else if len(acts) < n {
			add("missing", fmt.Sprintf("%d actions for %d snapshots", len(acts), n))
		}
		for i := 0; i < S && i < len(acts); i++ {
			if acts[i] != strategy.Hold {
				add("non-hold-in-warmup", fmt.Sprintf("action %d is %d during the warm-up of %d", i, acts[i], S))
				break
			}
		}
	} else {
		if len(acts) < n {
			add("missing", fmt.Sprintf("%d actions for %d snapshots (shorter than warm-up)", len(acts), n))
		}
		for i, a := range acts {
			if a != strategy.Hold {
				add("non-hold-in-warmup", fmt.Sprintf("action %d is %d although the input (%d) is shorter than the warm-up %d", i, a, n, S))
				break
			}
		}
	}
	// compounds: action i is the documented combination of the members' recommendations for
	// snapshot i (members evaluated on their own, on the same snapshots): a combinator that reads
	// its members out of step keeps the count and shifts recommendations
	if want, ok := combineMembers(c, st); ok {
		m := min(len(want), len(acts))
		for i := 0; i < m; i++ {
			if acts[i] != want[i] {
				if c.Entity == "decorator.NoLoss" || c.Entity == "decorator.StopLoss" {
					add("decorator-differs-from-model", fmt.Sprintf("action %d is %d; the wrapped strategy's actions and the closings up to snapshot %d give %d", i, acts[i], i, want[i]))
					break
				}
				add("compound-differs-from-members", fmt.Sprintf("action %d is %d, the members' recommendations for snapshot %d combine to %d", i, acts[i], i, want[i]))
				break
			}
		}
		st.Probes["compounds-compared-with-members"]++
	}
	// base strategies: action i is the documented rule applied to the indicator values that refer
	// to snapshot i (the indicators evaluated on their own, see c05rules.go)
	if len(c.Subs) == 0 {
		snaps := genSnapshots(n, c.Shape, c.DataSeed, epoch)
		if want, ok := ruleModel(c.strat(), snaps, st); ok {
			if i, kind, why := ruleMismatch(acts, want); i >= 0 {
				add(kind, why)
			}
			st.Probes["base-strategies-compared-with-their-rule"]++
		}
	}
	st.Probes["action-streams-checked"]++
	return vs
}

// combineMembers evaluates every member of an And/Or/Majority/Split/Inverse compound on its own
// (fresh instance, canonical schedule) and combines the action lists by the combinator's rule.
func combineMembers(c *Case, st *Stats) ([]strategy.Action, bool) {
	switch c.Entity {
	case "strategy.And", "strategy.Or", "strategy.Majority", "strategy.Split", "decorator.Inverse", "registry.And", "registry.Split", "decorator.NoLoss", "decorator.StopLoss":
	default:
		return nil, false
	}
	entity, subs := c.Entity, c.Subs
	if entity == "registry.And" || entity == "registry.Split" {
		// the k-th compound of the registry function is the pair (i, j) of the members
		if len(c.Subs) < 2 || len(c.Cfg) == 0 {
			return nil, false
		}
		i, j := registryPair(len(c.Subs), c.Cfg[0])
		subs = []SubSpec{c.Subs[i], c.Subs[j]}
		entity = "strategy." + entity[len("registry."):]
	}
	var lists [][]strategy.Action
	m := -1
	for _, sub := range subs {
		d := &Case{Family: "strat", Lens: c.Lens, Shape: c.Shape, DataSeed: c.DataSeed, Variant: c.Variant}
		setSpec(d, sub)
		r := runStrat(d, PipeOpts{SimOpts: SimOpts{Policy: simrt.PolicySpec{Name: "fifo"}}})
		st.noteSim(&r.SimOut)
		if r.Err != nil || !r.Built || !allTrue(r.Closed) {
			return nil, false
		}
		l := append([]strategy.Action(nil), r.Outs[0]...)
		if entity == "strategy.And" || entity == "strategy.Or" || entity == "strategy.Majority" {
			// these three vote on positions, not on signals (strategy.ActionSources denormalises): a
			// member counts as Buy from its Buy until its next Sell, and the other way round
			last := strategy.Hold
			for i, a := range l {
				if a != strategy.Hold && a != last {
					last = a
				}
				l[i] = last
			}
		}
		lists = append(lists, l)
		if m < 0 || len(r.Outs[0]) < m {
			m = len(r.Outs[0])
		}
	}
	if m < 0 {
		return nil, false
	}
	if entity == "decorator.NoLoss" || entity == "decorator.StopLoss" {
		// the decorators follow the wrapped strategy's action i and the closing of snapshot i: buy
		// when it says Buy and nothing is held; No-Loss sells on its Sell only above the purchase
		// price, Stop-Loss on its Sell or once the closing is at or below (1 - percentage) x the
		// purchase price. Where the documentation and a plain reading part (a purchase at a
		// closing of 0, a sale at exactly the purchase price) the comparison ends.
		closings := column(genSnapshots(c.Lens[0], c.Shape, c.DataSeed, epoch), 'c')
		m = min(m, len(closings))
		out := make([]strategy.Action, 0, m)
		held, price := false, 0.0
		pct := c.pct()
		if c.Variant > 0 {
			pct *= variantFactor[c.Variant%len(variantFactor)] // the variant scales every float parameter, the percentage included
		}
		for i := 0; i < m; i++ {
			a, cl := lists[0][i], closings[i]
			act := strategy.Hold
			switch {
			case a == strategy.Buy && !held:
				if cl == 0 || cl != cl {
					return out, true
				}
				held, price, act = true, cl, strategy.Buy
			case held && entity == "decorator.NoLoss" && a == strategy.Sell:
				if cl == price || cl != cl {
					return out, true
				}
				if cl > price {
					held, act = false, strategy.Sell
				}
			case held && entity == "decorator.StopLoss":
				stop := price * (1 - pct)
				if cl != cl || stop != stop || stop == 0 {
					return out, true // a stop price of exactly 0 (a percentage of 100 %) is the library's marker for "nothing held"
				}
				if a == strategy.Sell || cl <= stop {
					held, act = false, strategy.Sell
				}
			}
			out = append(out, act)
		}
		return out, true
	}
	out := make([]strategy.Action, m)
	for i := 0; i < m; i++ {
		buy, hold, sell := 0, 0, 0
		for _, l := range lists {
			switch l[i] {
			case strategy.Buy:
				buy++
			case strategy.Sell:
				sell++
			default:
				hold++
			}
		}
		k := len(lists)
		out[i] = strategy.Hold
		switch entity {
		case "strategy.And": // all members agree
			if sell == k {
				out[i] = strategy.Sell
			} else if buy == k {
				out[i] = strategy.Buy
			}
		case "strategy.Or": // some member recommends it and none the opposite
			if sell > 0 && buy == 0 {
				out[i] = strategy.Sell
			} else if buy > 0 && sell == 0 {
				out[i] = strategy.Buy
			}
		case "strategy.Majority": // more votes than either alternative
			if sell > buy && sell > hold {
				out[i] = strategy.Sell
			} else if buy > sell && buy > hold {
				out[i] = strategy.Buy
			}
		case "strategy.Split": // buys from the first member, sells from the second
			b, s := lists[0][i], lists[1][i]
			if b == strategy.Buy && s != strategy.Sell {
				out[i] = strategy.Buy
			} else if s == strategy.Sell && b != strategy.Buy {
				out[i] = strategy.Sell
			}
		case "decorator.Inverse":
			out[i] = -lists[0][i]
		}
	}
	return out, true
}

// holdWarmup returns the operational warm-up of the strategy a chain of decorators wraps.
func holdWarmup(s SubSpec) int {
	switch s.Entity {
	case "decorator.Inverse", "decorator.NoLoss", "decorator.StopLoss":
		return holdWarmup(s.Subs[0])
	}
	c := &Case{}
	setSpec(c, s)
	return measureWarmup(c)
}
