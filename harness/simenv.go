package harness

import (
	"context"
	"errors"
	"fmt"
	"io"
	"os"
	"path/filepath"
	"sync/atomic"

	"simrt"
)

// FragReader delivers a byte string in drawn fragment sizes (including 1-byte and 0-byte
// reads), optionally failing with an error at a given offset. Every Read is a scheduling point
// when it runs inside a task.
type FragReader struct {
	Data   []byte
	Frag   []int // fragment sizes, cycled; 0 = a zero-byte read with nil error
	ErrAt  int   // offset at which Read returns Err (-1: never)
	Err    error
	Ctx    context.Context // optional: reads fail once the context is done (HTTP bodies)
	pos    int
	k      int
	Reads  int
	Failed bool
	Closed bool
}

func (r *FragReader) Read(p []byte) (int, error) {
	simrt.Yield(-8, "read")
	r.Reads++
	if r.Ctx != nil && r.Ctx.Err() != nil {
		return 0, r.Ctx.Err()
	}
	if r.ErrAt >= 0 && r.pos >= r.ErrAt {
		r.Failed = true
		return 0, r.Err
	}
	if r.pos >= len(r.Data) {
		return 0, io.EOF
	}
	n := len(p)
	if len(r.Frag) > 0 {
		n = r.Frag[r.k%len(r.Frag)]
		r.k++
	}
	if n > len(p) {
		n = len(p)
	}
	if n > len(r.Data)-r.pos {
		n = len(r.Data) - r.pos
	}
	if r.ErrAt >= 0 && r.pos+n > r.ErrAt {
		n = r.ErrAt - r.pos
	}
	copy(p, r.Data[r.pos:r.pos+n])
	r.pos += n
	return n, nil
}

// Close lets FragReader serve as an http response body.
func (r *FragReader) Close() error { r.Closed = true; return nil }

// FaultWriter accepts Limit bytes, then fails (or writes short).
type FaultWriter struct {
	Buf    []byte
	Limit  int // -1: unlimited
	Short  bool
	Err    error
	Failed bool
}

func (w *FaultWriter) Write(p []byte) (int, error) {
	simrt.Yield(-9, "write")
	if w.Limit >= 0 && len(w.Buf)+len(p) > w.Limit {
		n := w.Limit - len(w.Buf)
		if n < 0 {
			n = 0
		}
		w.Buf = append(w.Buf, p[:n]...)
		w.Failed = true
		if w.Short {
			return n, io.ErrShortWrite
		}
		return n, w.Err
	}
	w.Buf = append(w.Buf, p...)
	return len(p), nil
}

var errInjected = errors.New("injected I/O error")

var runDirSeq atomic.Int64

// runDir creates a fresh directory for one simulated run under the check's scratch area.
func runDir() string {
	base := envOr("VFSDIR", os.TempDir())
	d := filepath.Join(base, fmt.Sprintf("run-%d-%d", os.Getpid(), runDirSeq.Add(1)))
	if curBase != "" {
		runRoots = append(runRoots, d)
		d = filepath.Join(d, filepath.FromSlash(curBase))
	}
	if err := os.MkdirAll(d, 0o755); err != nil {
		panic(err)
	}
	return d
}

// fsPlan turns the file-fault specifications of a case into a simrt fault plan (nil if none).
//
//	fs-write-budget: on the N-th open of the file, writes succeed for At more bytes, then fail (short write, ENOSPC)
//	fs-close-error:  the N-th close of a file opened for writing fails
//	fs-read-budget:  on the N-th open, reads deliver At bytes, then fail (EIO)
//	fs-open-error:   the N-th open fails
//	fs-open-write-error: the N-th open for writing fails
func fsPlan(faults []FaultSpec) *simrt.FaultPlan {
	var p *simrt.FaultPlan
	for _, f := range faults {
		var r *simrt.FileFault
		switch f.Kind {
		case "fs-write-budget":
			r = &simrt.FileFault{Op: "write", Nth: f.N, After: f.At}
		case "fs-close-error":
			r = &simrt.FileFault{Op: "close", Nth: f.N}
		case "fs-read-budget":
			r = &simrt.FileFault{Op: "read", Nth: f.N, After: f.At}
		case "fs-open-error":
			r = &simrt.FileFault{Op: "open", Nth: f.N}
		case "fs-open-write-error":
			r = &simrt.FileFault{Op: "open-write", Nth: f.N}
		default:
			continue
		}
		r.PathSuffix = f.Name
		if p == nil {
			p = &simrt.FaultPlan{}
		}
		p.Rules = append(p.Rules, r)
	}
	return p
}
