package harness

import (
	"fmt"
	"math/rand"

	"github.com/cinar/indicator/v2/asset"
	"github.com/cinar/indicator/v2/strategy"
	"simrt"
)

// C03: pipelines never deadlock or leak and are schedule-independent.
type c03 struct{}

func init() { register(c03{}) }

func (c03) ID() string { return "C03" }

func (c03) Rule() string {
	return "case = (indicator|strategy incl. compound/decorated, configuration, per-input lengths incl. 0, <= warm-up and unequal, input channel capacity 0..4, scheduling policy+seed); " +
		"each case is executed under the drawn schedule and under the canonical FIFO schedule with capacity 0; " +
		"a cell (family, entity, configuration class, length regime, policy) is non-trivial when the run contained at least one non-FIFO decision or an end-of-stream fault (EOF at or before the warm-up, unequal EOFs); distinct_nontrivial counts distinct cells"
}

func (c03) Components() (real, stub []string) {
	return []string{"all of cinar/indicator (AST-instrumented copy of the working tree)", "Go channels and goroutines", "testing/synctest quiescence detection"},
		[]string{"input producers (one task per input channel)", "output consumers (one independent task per output)", "scheduler: simrt controller releasing one parked task at a time"}
}

func (c03) Gen(rng *rand.Rand, tier string, k int) *Case {
	var c *Case
	if rng.Intn(100) < 55 {
		c = genIndCase(rng, tier, false)
	} else {
		c = genStratCase(rng, tier)
	}
	if rng.Intn(12) == 0 {
		c.Variant = 3 // every non-period parameter zero
	}
	return c
}

func (c03) Shrinks(c *Case) []*Case { return pipeShrinks(c) }

func (c03) Run(c *Case, st *Stats) []Violation {
	var vs []Violation
	add := func(entity, kind, regime, detail string, dec []string) {
		vs = append(vs, Violation{Prop: "C03", Entity: entity, Kind: kind, Regime: regime, Detail: detail, Decisions: dec})
	}
	switch c.Family {
	case "ind":
		r, ii := runInd(c, c.pipeOpts())
		regime := lenRegime(c.Lens, ii.Idle)
		noteCase(st, c, regime, &r.SimOut)
		if r.Err != nil {
			return nil
		}
		ok, kind, detail := termination(&r.SimOut, r.Closed, r.ProdDone, r.Built)
		desc := fmt.Sprintf("%s cfg=%v scale=%d idle=%d lens=%v cap=%d policy=%s: ", c.Entity, c.Cfg, c.Scale, ii.Idle, c.Lens, c.Cap, c.Policy.Name)
		if !ok {
			st.Probes["nonterminating-runs"]++
			add(c.Entity, kind, regime, desc+detail, r.Decisions)
			return vs
		}
		if r.NbrBad != "" {
			add(c.Entity, "neighbour-pipeline-disturbed", regime, desc+r.NbrBad, r.Decisions)
		}
		// canonical schedule: FIFO, unbuffered inputs
		d := *c
		d.Cap, d.Policy, d.Record, d.Late, d.Nbr, d.Early = 0, simrt.PolicySpec{Name: "fifo"}, false, false, false, false
		r0, _ := runInd(&d, d.pipeOpts())
		st.noteSim(&r0.SimOut)
		if ok0, _, _ := termination(&r0.SimOut, r0.Closed, r0.ProdDone, r0.Built); ok0 && r0.Err == nil {
			if same, why := sameFloats(r.Outs, r0.Outs); !same {
				add(c.Entity, "schedule-dependent-output", regime, desc+"differs from canonical schedule: "+why, r.Decisions)
			}
			st.Probes["compared-with-canonical"]++
		}
	case "strat":
		S := measureWarmup(c)
		r := runStrat(c, c.pipeOpts())
		regime := "n>=warmup"
		if c.Lens[0] < S || S < 0 {
			regime = "n<warmup"
		}
		name := specName(c.spec())
		nr := "n>idle"
		if regime == "n<warmup" {
			nr = "n<=idle"
		}
		cc := *c
		cc.Entity = name
		noteCase(st, &cc, nr, &r.SimOut)
		if r.Err != nil {
			return nil
		}
		ok, kind, detail := termination(&r.SimOut, r.Closed, r.ProdDone, r.Built)
		desc := fmt.Sprintf("%s cfg=%v scale=%d warmup=%d n=%d cap=%d policy=%s: ", name, c.Cfg, c.Scale, S, c.Lens[0], c.Cap, c.Policy.Name)
		if !ok {
			st.Probes["nonterminating-runs"]++
			add(name, kind, regime, desc+detail, r.Decisions)
			return vs
		}
		if r.NbrBad != "" {
			add(name, "neighbour-pipeline-disturbed", regime, desc+r.NbrBad, r.Decisions)
		}
		if c.Outc {
			// the same strategy through strategy.ComputeWithOutcome (what reports and the backtester
			// call): actions and outcomes, each drained by an independent reader
			ro := runStratOutcome(c, c.pipeOpts())
			st.noteSim(&ro.SimOut)
			if ro.Err == nil {
				if ok, kind, detail := termination(&ro.SimOut, ro.Closed, ro.ProdDone, ro.Built); !ok {
					add(name, kind+"-with-outcome", regime, desc+"ComputeWithOutcome: "+detail, ro.Decisions)
					return vs
				}
				d := *c
				d.Cap, d.Policy, d.Record, d.Late, d.Nbr, d.Early = 0, simrt.PolicySpec{Name: "fifo"}, false, false, false, false
				r1 := runStratOutcome(&d, d.pipeOpts())
				st.noteSim(&r1.SimOut)
				if ok1, _, _ := termination(&r1.SimOut, r1.Closed, r1.ProdDone, r1.Built); ok1 && r1.Err == nil {
					if same, why := sameFloats(ro.Outs, r1.Outs); !same {
						add(name, "schedule-dependent-output", regime, desc+"ComputeWithOutcome differs from canonical schedule: "+why, ro.Decisions)
					}
				}
				st.Probes["strategies-run-through-ComputeWithOutcome"]++
			}
		}
		d := *c
		d.Cap, d.Policy, d.Record, d.Late, d.Nbr, d.Early = 0, simrt.PolicySpec{Name: "fifo"}, false, false, false, false
		r0 := runStrat(&d, d.pipeOpts())
		st.noteSim(&r0.SimOut)
		if ok0, _, _ := termination(&r0.SimOut, r0.Closed, r0.ProdDone, r0.Built); ok0 && r0.Err == nil {
			if same, why := sameActions(r.Outs, r0.Outs); !same {
				add(name, "schedule-dependent-output", regime, desc+"differs from canonical schedule: "+why, r.Decisions)
			}
			st.Probes["compared-with-canonical"]++
		}
	}
	return vs
}

func sameActions(a, b [][]strategy.Action) (bool, string) {
	if len(a) != len(b) {
		return false, fmt.Sprintf("%d outputs vs %d", len(a), len(b))
	}
	for j := range a {
		if len(a[j]) != len(b[j]) {
			return false, fmt.Sprintf("output %d: %d actions vs %d", j, len(a[j]), len(b[j]))
		}
		for k := range a[j] {
			if a[j][k] != b[j][k] {
				return false, fmt.Sprintf("output %d position %d: %v vs %v", j, k, a[j][k], b[j][k])
			}
		}
	}
	return true, ""
}

// runStratOutcome runs the strategy of the case through strategy.ComputeWithOutcome; output 0 are
// the actions (as numbers, forwarded by a task of the harness), output 1 the outcomes.
func runStratOutcome(c *Case, o PipeOpts) *PipeResult[float64] {
	snaps := genSnapshots(c.Lens[0], c.Shape, c.DataSeed, epoch)
	return runPipe(o, [][]*asset.Snapshot{snaps}, func(in []<-chan *asset.Snapshot) []<-chan float64 {
		acts, outs := strategy.ComputeWithOutcome(c.strat(), in[0])
		conv := make(chan float64)
		simrt.GoKind("cons", func() {
			for {
				consYield()
				a, ok := <-acts
				if !ok {
					close(conv)
					return
				}
				conv <- float64(a)
			}
		})
		return []<-chan float64{conv, outs}
	})
}
