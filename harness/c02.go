package harness

import (
	"fmt"
	"math/rand"
)

// C02: warm-up contract: exactly max(0, n-idle) values on every output.
type c02 struct{}

func init() { register(c02{}) }

func (c02) ID() string { return "C02" }

func (c02) Rule() string {
	return "case = (indicator, configuration, equal input length n drawn around the warm-up w with every n in [0, w+2] favoured, capacity, scheduling policy+seed); " +
		"the fault is the position of end-of-stream relative to the warm-up; a cell (entity, configuration class, n relative to w: 0, <w, =w, w+1, w+2, >w+2, policy) is non-trivial when n <= w+2 or the schedule had a non-FIFO decision; distinct_nontrivial counts distinct cells"
}

func (c02) Components() (real, stub []string) { return c03{}.Components() }

func (c02) Gen(rng *rand.Rand, tier string, k int) *Case {
	c := genIndCase(rng, tier, true)
	if rng.Intn(12) == 0 {
		c.Variant = 3 // every non-period parameter zero (a zero multiplier, a zero percentage)
	}
	return c
}

func (c02) Shrinks(c *Case) []*Case {
	var out []*Case
	for _, d := range pipeShrinks(c) {
		if equalInts(d.Lens) {
			out = append(out, d)
		}
	}
	return out
}

func nClass(n, w int) string {
	switch {
	case n == 0:
		return "n=0"
	case n < w:
		return "n<w"
	case n == w:
		return "n=w"
	case n == w+1:
		return "n=w+1"
	case n == w+2:
		return "n=w+2"
	}
	return "n>w+2"
}

func (c02) Run(c *Case, st *Stats) []Violation {
	r, ii := runInd(c, c.pipeOpts())
	n, w := c.Lens[0], ii.Idle
	regime := lenRegime(c.Lens, w)
	st.noteSim(&r.SimOut)
	if n <= w+2 || r.NonFifo > 0 {
		cfgClass := "default"
		if len(c.Cfg) > 0 {
			cfgClass = fmt.Sprint(c.Cfg)
		} else if c.Scale > 1 {
			cfgClass = fmt.Sprintf("scaled/%d", c.Scale)
		}
		st.cell(c.Entity, cfgClass, nClass(n, w), c.Policy.Name)
	}
	if n <= w {
		st.Faults["eof-before-warm-up"]++
	}
	if r.Err != nil {
		return nil
	}
	if ok, _, _ := termination(&r.SimOut, r.Closed, r.ProdDone, r.Built); !ok {
		st.Skipped["not-evaluated:run-did-not-terminate(C03)"]++
		return nil
	}
	var vs []Violation
	exp := max(0, n-w)
	desc := fmt.Sprintf("%s cfg=%v scale=%d idle=%d n=%d cap=%d policy=%s: ", c.Entity, c.Cfg, c.Scale, w, n, c.Cap, c.Policy.Name)
	lens := make([]int, len(r.Outs))
	for j := range r.Outs {
		lens[j] = len(r.Outs[j])
	}
	for j, got := range lens {
		if got > exp {
			vs = append(vs, Violation{Prop: "C02", Entity: c.Entity, Kind: fmt.Sprintf("surplus@out%d", j), Regime: regime,
				Detail: desc + fmt.Sprintf("output %d has %d values, expected max(0,n-idle)=%d (all outputs: %v)", j, got, exp, lens), Decisions: r.Decisions})
		} else if got < exp {
			vs = append(vs, Violation{Prop: "C02", Entity: c.Entity, Kind: fmt.Sprintf("missing@out%d", j), Regime: regime,
				Detail: desc + fmt.Sprintf("output %d has %d values, expected max(0,n-idle)=%d (all outputs: %v)", j, got, exp, lens), Decisions: r.Decisions})
		}
	}
	st.Probes["counts-checked"]++
	return vs
}
