package harness

import (
	"fmt"
	"reflect"
	"sync"

	"github.com/cinar/indicator/v2/asset"
	"github.com/cinar/indicator/v2/strategy"
	"github.com/cinar/indicator/v2/strategy/compound"
	sm "github.com/cinar/indicator/v2/strategy/momentum"
	st "github.com/cinar/indicator/v2/strategy/trend"
	sv "github.com/cinar/indicator/v2/strategy/volatility"
	so "github.com/cinar/indicator/v2/strategy/volume"
	"simrt"
)

// Rule models of the base strategies (C05: "action i being the recommendation for snapshot i").
//
// Every base strategy documents a rule over the values of the indicators it holds in exported
// fields ("buy when the closing is below the lower band"). The model evaluates those indicators on
// their own - the public Compute of the very instance the strategy holds, over the whole series,
// under the canonical schedule - places value k of an output at input position k + w (w = the
// warm-up the indicator declares; that placement is what C02 establishes), and applies the rule
// position by position. The strategy's action i has to be the rule's verdict on the values that
// refer to position i. A strategy that pairs the streams out of step (skips one too few, shifts
// by the wrong amount) keeps the count and the leading Holds and differs here.
//
// Positions at which the model has no value yet (before the slowest indicator's warm-up) are left
// to the warm-up clause. Where a rule's two conditions can hold at once (thresholds that overlap
// after scaling) either verdict is accepted.

// series is a float stream placed on input positions: v[k] refers to position k+off.
type series struct {
	v   []float64
	off int
}

func (s series) at(pos int) (float64, bool) {
	k := pos - s.off
	if k < 0 || k >= len(s.v) {
		return 0, false
	}
	return s.v[k], true
}

var (
	entityByTypeOnce sync.Once
	entityByType     map[reflect.Type]*IndEntity
)

func entityOf(inst any) *IndEntity {
	entityByTypeOnce.Do(func() {
		entityByType = map[reflect.Type]*IndEntity{}
		for _, e := range Indicators {
			t := reflect.TypeOf(e.Make(nil))
			if _, ok := entityByType[t]; !ok {
				entityByType[t] = e
			}
		}
	})
	return entityByType[reflect.TypeOf(inst)]
}

// ruleEnv evaluates indicators for one rule model.
type ruleEnv struct {
	st    *Stats
	snaps []*asset.Snapshot
	ok    bool
}

func (e *ruleEnv) col(which byte) series { return series{v: column(e.snaps, which)} }

// run computes the indicator instance over the given input series (cut to their common positions)
// and returns its outputs placed on input positions.
func (e *ruleEnv) run(inst any, ins ...series) []series {
	if !e.ok {
		return nil
	}
	v := reflect.ValueOf(inst)
	if !v.IsValid() || (v.Kind() == reflect.Ptr && v.IsNil()) {
		e.ok = false
		return nil
	}
	ent := entityOf(inst)
	ii := &IndInstance{E: ent, Inst: inst}
	if m := v.MethodByName("IdlePeriod"); m.IsValid() {
		ii.Idle = int(m.Call(nil)[0].Int())
	} else if ent != nil && ent.Implied != nil {
		ii.Idle = ent.Implied(inst)
	} else {
		e.ok = false
		return nil
	}
	off, end := 0, 1<<30
	for _, s := range ins {
		off = max(off, s.off)
		end = min(end, s.off+len(s.v))
	}
	in := make([][]float64, len(ins))
	for i, s := range ins {
		if end > off {
			in[i] = s.v[off-s.off : end-s.off]
		}
	}
	r := runPipe(PipeOpts{SimOpts: SimOpts{Policy: simrt.PolicySpec{Name: "fifo"}, MaxSteps: 3_000_000}}, in, ii.Build())
	e.st.noteSim(&r.SimOut)
	if r.Err != nil || !r.Built || !allTrue(r.Closed) || len(r.SimOut.Panics) > 0 {
		e.ok = false // termination is C03's
		return nil
	}
	n := max(0, end-off)
	outs := make([]series, len(r.Outs))
	for j, o := range r.Outs {
		if len(o) != max(0, n-ii.Idle) {
			e.ok = false // the indicator does not honour its declared warm-up: C02's
			return nil
		}
		outs[j] = series{v: o, off: off + ii.Idle}
	}
	return outs
}

func (e *ruleEnv) run1(inst any, ins ...series) series {
	o := e.run(inst, ins...)
	if !e.ok || len(o) < 1 {
		e.ok = false
		return series{}
	}
	return o[0]
}

// verdict: the set of actions the rule allows at one position.
type verdict struct{ buy, sell, hold bool }

func only(a strategy.Action) verdict {
	return verdict{buy: a == strategy.Buy, sell: a == strategy.Sell, hold: a == strategy.Hold}
}

func (v verdict) allows(a strategy.Action) bool {
	return a == strategy.Buy && v.buy || a == strategy.Sell && v.sell || a == strategy.Hold && v.hold
}

func (v verdict) String() string {
	s := ""
	if v.buy {
		s += "Buy "
	}
	if v.sell {
		s += "Sell "
	}
	if v.hold {
		s += "Hold "
	}
	return "{" + s + "}"
}

// twoWay: buy under one condition, sell under the other, hold otherwise; both at once = either.
func twoWay(buy, sell bool) verdict {
	switch {
	case buy && sell:
		return verdict{buy: true, sell: true}
	case buy:
		return only(strategy.Buy)
	case sell:
		return only(strategy.Sell)
	}
	return only(strategy.Hold)
}

// ruleModel returns, per input position, the verdict of the strategy's documented rule (nil where
// the model has no value), or ok=false when there is no model for the strategy type or one of
// its indicators could not be evaluated.
func ruleModel(s strategy.Strategy, snaps []*asset.Snapshot, stt *Stats) (want []*verdict, ok bool) {
	e := &ruleEnv{st: stt, snaps: snaps, ok: true}
	n := len(snaps)
	want = make([]*verdict, n)
	set := func(i int, v verdict) { want[i] = &v }
	// each: evaluate f at every position where all the given series have a value
	each := func(f func(i int, x []float64) verdict, ss ...series) {
		if !e.ok {
			return
		}
		x := make([]float64, len(ss))
		for i := 0; i < n; i++ {
			have := true
			for k, s := range ss {
				v, ok := s.at(i)
				if !ok {
					have = false
					break
				}
				x[k] = v
			}
			if have {
				set(i, f(i, x))
			}
		}
	}
	// cross: verdict from the value at the position and the one before it
	cross := func(s series) {
		if !e.ok {
			return
		}
		for i := 1; i < n; i++ {
			b, ok1 := s.at(i - 1)
			c, ok2 := s.at(i)
			if ok1 && ok2 {
				set(i, twoWay(c >= 0 && b < 0, c <= 0 && b > 0))
			}
		}
	}
	sign := func(s series) {
		each(func(_ int, x []float64) verdict { return twoWay(x[0] > 0, x[0] < 0) }, s)
	}
	c, h, l, o, v := e.col('c'), e.col('h'), e.col('l'), e.col('o'), e.col('v')
	switch t := s.(type) {
	case *strategy.BuyAndHoldStrategy:
		for i := 0; i < n; i++ {
			if i == 0 {
				set(i, only(strategy.Buy))
			} else {
				set(i, only(strategy.Hold))
			}
		}
	case *st.AlligatorStrategy:
		jaw, teeth, lip := e.run1(t.Jaw, c), e.run1(t.Teeth, c), e.run1(t.Lip, c)
		each(func(_ int, x []float64) verdict {
			return twoWay(x[2] > x[1] && x[2] > x[0], x[2] < x[1] && x[2] < x[0])
		}, jaw, teeth, lip)
	case *st.ApoStrategy:
		cross(e.run1(t.Apo, c))
	case *st.AroonStrategy:
		ud := e.run(t.Aroon, h, l)
		if e.ok {
			each(func(_ int, x []float64) verdict { return twoWay(x[0] > x[1], x[1] > x[0]) }, ud[0], ud[1])
		}
	case *st.BopStrategy:
		sign(e.run1(t.Bop, o, h, l, c))
	case *st.CciStrategy:
		each(func(_ int, x []float64) verdict { return twoWay(x[0] >= 100, x[0] <= -100) }, e.run1(t.Cci, h, l, c))
	case *st.DemaStrategy:
		each(func(_ int, x []float64) verdict { return twoWay(x[0] > x[1], x[1] > x[0]) }, e.run1(t.Dema1, c), e.run1(t.Dema2, c))
	case *st.EnvelopeStrategy:
		b := e.run(t.Envelope, c)
		if e.ok {
			each(func(_ int, x []float64) verdict { return twoWay(x[2] < x[1], x[2] > x[0]) }, b[0], b[2], c)
		}
	case *st.GoldenCrossStrategy:
		each(func(_ int, x []float64) verdict { return twoWay(x[0] > x[1], x[0] < x[1]) }, e.run1(t.FastEma, c), e.run1(t.SlowEma, c))
	case *st.KamaStrategy:
		each(func(_ int, x []float64) verdict { return twoWay(x[1] > x[0], x[1] < x[0]) }, e.run1(t.Kama, c), c)
	case *st.KdjStrategy:
		kdj := e.run(t.Kdj, h, l, c)
		if e.ok {
			each(func(_ int, x []float64) verdict {
				a, b := x[2]-x[0], x[2]-x[1]
				return twoWay(a > 0 && b > 0, a < 0 && b < 0)
			}, kdj[0], kdj[1], kdj[2])
		}
	case *st.MacdStrategy:
		ms := e.run(t.Macd, c)
		if e.ok {
			each(func(_ int, x []float64) verdict { return twoWay(x[0] > x[1] && x[0] < 0, x[1] > x[0] && x[0] > 0) }, ms[0], ms[1])
		}
	case *st.QstickStrategy:
		cross(e.run1(t.Qstick, o, c))
	case *st.SmmaStrategy:
		each(func(_ int, x []float64) verdict { return twoWay(x[0] > x[1], x[1] > x[0]) }, e.run1(t.ShortSmma, c), e.run1(t.LongSmma, c))
	case *st.TrimaStrategy:
		each(func(_ int, x []float64) verdict { return twoWay(x[0] > x[1], x[1] > x[0]) }, e.run1(t.Short, c), e.run1(t.Long, c))
	case *st.TripleMovingAverageCrossoverStrategy:
		each(func(_ int, x []float64) verdict {
			return twoWay(x[0] > x[1] && x[0] > x[2], x[0] < x[1] && x[0] < x[2])
		}, e.run1(t.FastEma, c), e.run1(t.MediumEma, c), e.run1(t.SlowEma, c))
	case *st.TrixStrategy:
		sign(e.run1(t.Trix, c))
	case *st.TsiStrategy:
		tsi := e.run1(t.Tsi, c)
		sig := e.run1(t.Signal, tsi)
		each(func(_ int, x []float64) verdict { return twoWay(x[0] > 0 && x[0] > x[1], x[0] < 0 && x[0] < x[1]) }, tsi, sig)
	case *st.VwmaStrategy:
		each(func(_ int, x []float64) verdict { return twoWay(x[1] > x[0], x[0] > x[1]) }, e.run1(t.Sma, c), e.run1(t.Vwma, c, v))
	case *st.WeightedCloseStrategy:
		wc := e.run1(t.WeightedClose, h, l, c)
		ma := e.run1(t.Ma, wc)
		each(func(_ int, x []float64) verdict {
			if x[0] > x[1] {
				return only(strategy.Buy)
			}
			return only(strategy.Sell)
		}, wc, ma)
	case *sm.AwesomeOscillatorStrategy:
		sign(e.run1(t.AwesomeOscillator, h, l))
	case *sm.RsiStrategy:
		each(func(_ int, x []float64) verdict { return twoWay(x[0] <= t.BuyAt, x[0] >= t.SellAt) }, e.run1(t.Rsi, c))
	case *sm.StochasticRsiStrategy:
		each(func(_ int, x []float64) verdict { return twoWay(x[0] <= t.BuyAt, x[0] >= t.SellAt) }, e.run1(t.StochasticRsi, c))
	case *sv.BollingerBandsStrategy:
		b := e.run(t.BollingerBands, c)
		if e.ok {
			each(func(_ int, x []float64) verdict { return twoWay(x[2] > x[0], x[1] > x[2]) }, b[0], b[2], c)
		}
	case *sv.SuperTrendStrategy:
		each(func(_ int, x []float64) verdict { return twoWay(x[0] < x[1], x[0] > x[1]) }, e.run1(t.SuperTrend, h, l, c), c)
	case *so.ChaikinMoneyFlowStrategy:
		sign(e.run1(t.ChaikinMoneyFlow, h, l, c, v))
	case *so.EaseOfMovementStrategy:
		sign(e.run1(t.EaseOfMovement, h, l, v))
	case *so.ForceIndexStrategy:
		sign(e.run1(t.ForceIndex, c, v))
	case *so.MoneyFlowIndexStrategy:
		each(func(_ int, x []float64) verdict { return twoWay(x[0] <= t.BuyAt, x[0] >= t.SellAt) }, e.run1(t.MoneyFlowIndex, h, l, c, v))
	case *so.NegativeVolumeIndexStrategy:
		nvi := e.run1(t.NegativeVolumeIndex, c, v)
		ema := e.run1(t.NegativeVolumeIndexEma, nvi)
		each(func(_ int, x []float64) verdict { return twoWay(x[0] < x[1], x[0] > x[1]) }, nvi, ema)
	case *so.WeightedAveragePriceStrategy:
		each(func(_ int, x []float64) verdict { return twoWay(x[1] > x[0], x[1] < x[0]) }, c, e.run1(t.WeightedAveragePrice, c, v))
	case *compound.MacdRsiStrategy:
		// both members' positions (their rule verdicts, a Buy or Sell standing until the opposite
		// one) have to agree; the comparison ends where a member's verdict is not unique
		ma, ok1 := ruleModel(t.MacdStrategy, snaps, stt)
		ra, ok2 := ruleModel(t.RsiStrategy, snaps, stt)
		if !ok1 || !ok2 {
			return nil, false
		}
		lastM, lastR := strategy.Hold, strategy.Hold
		pick := func(v *verdict) (strategy.Action, bool) {
			switch {
			case v == nil || *v == only(strategy.Hold):
				return strategy.Hold, true
			case *v == only(strategy.Buy):
				return strategy.Buy, true
			case *v == only(strategy.Sell):
				return strategy.Sell, true
			}
			return strategy.Hold, false
		}
		for i := 0; i < n; i++ {
			a, okA := pick(ma[i])
			b, okB := pick(ra[i])
			if !okA || !okB {
				break
			}
			if a != strategy.Hold {
				lastM = a
			}
			if b != strategy.Hold {
				lastR = b
			}
			if lastM == lastR {
				set(i, only(lastM))
			} else {
				set(i, only(strategy.Hold))
			}
		}
	default:
		return nil, false
	}
	return want, e.ok
}

// ruleMismatch compares the actions of a base strategy with its rule model; it returns the first
// position that differs and the kind of difference: "lags-rule-by-1" when every action is the
// rule's verdict on the snapshot before it (the whole stream a day late), "differs-from-rule"
// otherwise.
func ruleMismatch(acts []strategy.Action, want []*verdict) (pos int, kind, why string) {
	pos = -1
	for i := 0; i < len(acts) && i < len(want); i++ {
		if want[i] != nil && !want[i].allows(acts[i]) {
			pos = i
			why = fmt.Sprintf("action %d is %d, the rule applied to the indicator values that refer to snapshot %d gives %v", i, acts[i], i, *want[i])
			break
		}
	}
	if pos < 0 {
		return -1, "", ""
	}
	lag, compared := true, 0
	for i := 0; i < len(want) && i+1 < len(acts); i++ {
		if want[i] != nil {
			compared++
			lag = lag && want[i].allows(acts[i+1])
		}
	}
	if lag && compared > 0 {
		return pos, "lags-rule-by-1", why + "; every action is the verdict on the snapshot before it"
	}
	return pos, "differs-from-rule", why
}
