package harness

import (
	"bytes"
	"fmt"
	"math/rand"
	"reflect"
	"regexp"

	"github.com/cinar/indicator/v2/asset"
	"github.com/cinar/indicator/v2/strategy"
	"simrt"
)

// spawnPipe starts producers, the build task and the consumers of one pipeline inside a running
// simulation (the non-step-feed part of runPipe, reusable for several pipelines in one bubble).
// lockstep: the outputs of all concurrent calls are read by ONE consumer, one value from each
// open stream in turn (a caller that zips the results of two calls on one instance, as the
// library itself does with a shared MovingSum). A stream that can only proceed once another one
// has been read to its end stalls here, and only here.
type lockstep[O any] struct {
	regs chan lsReg[O]
	n    int
}

type lsReg[O any] struct {
	res  *PipeResult[O]
	outs []<-chan O
}

func (ls *lockstep[O]) consume() {
	simrt.GoKind("cons", func() {
		type stream struct {
			res *PipeResult[O]
			j   int
			oc  <-chan O
		}
		var open []stream
		for i := 0; i < ls.n; i++ {
			r := <-ls.regs
			for j, oc := range r.outs {
				open = append(open, stream{r.res, j, oc})
			}
		}
		for len(open) > 0 {
			next := open[:0]
			for _, st := range open {
				consYield()
				v, ok := <-st.oc
				if !ok {
					st.res.Closed[st.j] = true
					continue
				}
				st.res.Outs[st.j] = append(st.res.Outs[st.j], v)
				next = append(next, st)
			}
			open = next
		}
	})
}

func spawnPipe[I, O any](capacity int, inputs [][]I, build func(in []<-chan I) []<-chan O, res *PipeResult[O], ls ...*lockstep[O]) {
	res.Fed = make([]int, len(inputs))
	res.ProdDone = make([]bool, len(inputs))
	ins := make([]chan I, len(inputs))
	ro := make([]<-chan I, len(inputs))
	for i := range ins {
		ins[i] = make(chan I, capacity)
		ro[i] = ins[i]
	}
	for i, data := range inputs {
		simrt.GoKind("prod", func() {
			for _, v := range data {
				prodYield()
				ins[i] <- v
				res.Fed[i]++
			}
			simrt.Yield(-3, "prod-close")
			close(ins[i])
			res.ProdDone[i] = true
		})
	}
	simrt.GoKind("build", func() {
		outs := build(ro)
		res.Outs = make([][]O, len(outs))
		res.Closed = make([]bool, len(outs))
		res.Built = true
		if len(ls) > 0 && ls[0] != nil {
			ls[0].regs <- lsReg[O]{res, outs}
			return
		}
		for j, oc := range outs {
			simrt.GoKind("cons", func() {
				for {
					consYield()
					v, ok := <-oc
					if !ok {
						res.Closed[j] = true
						return
					}
					res.Outs[j] = append(res.Outs[j], v)
				}
			})
		}
	})
}

var generatedRe = regexp.MustCompile(`[0-9]{4}-[0-9]{2}-[0-9]{2} [0-9]{2}:[0-9]{2}:[0-9]{2}[^<\n]*`)

// stripGenerated removes the "generated on" time stamp of a rendered report (the clock differs
// between two renderings; it is not part of what Compute/Report produce from the input).
func stripGenerated(html string) string { return generatedRe.ReplaceAllString(html, "T") }

// C09 (controlled part): instances are reusable - any number of Compute/Report calls on one
// instance, one after another or alive at the same time, give the results of fresh instances.
type c09 struct{}

func init() { register(c09{}) }

func (c09) ID() string { return "C09" }

func (c09) Rule() string {
	return "case = (indicator or strategy instance incl. compound/decorated and the types that share a sub-indicator between streams, configuration, 2-4 calls of Compute (strategies also Report) with different series and lengths, mode: sequential or all alive at once under one controller, capacity, scheduling policy+seed); " +
		"oracle: every call's outputs (and rendered report) equal those of a fresh instance of the same configuration under the canonical schedule; exact census; " +
		"a cell (family, entity, configuration class, mode, number of calls, policy) is non-trivial when the calls overlap in time under a schedule with non-FIFO decisions, or reuse the instance after a completed call; distinct_nontrivial counts distinct cells. " +
		"The data-race clause is decided separately by the race-detector companion (free-running, -race), whose counters are under coverage.race_monitor"
}

func (c09) Components() (real, stub []string) {
	r, s := c03{}.Components()
	return append(r, "text/template report rendering (strategy Report calls)"), s
}

func (c09) Gen(rng *rand.Rand, tier string, k int) *Case {
	var c *Case
	var w int
	if rng.Intn(2) == 0 {
		c = genIndCase(rng, tier, true)
		if rng.Intn(30) == 0 {
			c.Entity, c.Cfg, c.Scale = UnsetIndicators[rng.Intn(len(UnsetIndicators))].Name, nil, 0
		}
		w = max(0, makeInd(indByName[c.Entity], c.Cfg, c.Scale).Idle)
	} else {
		c = genStratCase(rng, tier)
		w = max(0, measureWarmup(c))
	}
	c.Lens = nil
	ncalls := 2 + rng.Intn(3)
	glitchy := rng.Intn(10) == 0
	if deepTier && rng.Intn(3) == 0 {
		ncalls = 5 + rng.Intn(4) // a worker pool's worth of calls alive at once
	}
	for i := 0; i < ncalls; i++ {
		n := genLen(rng, w, 80)
		if rng.Intn(3) > 0 {
			n = w + 1 + rng.Intn(w+6)
		}
		if n > 150 {
			n = 150
		}
		if i > 0 && rng.Intn(60) == 0 {
			n = 800 + rng.Intn(700) // a later call over years of daily bars (anything that counts values or streams shows there)
		}
		cs := CallSpec{Len: n, Shape: rng.Intn(NumShapes), DataSeed: rng.Int63n(1 << 30)}
		if glitchy {
			cs.Shape = ShapeGlitch // bars without a price (all zero): whatever a strategy does about them is the same for a fresh instance
		}
		if c.Family == "strat" && rng.Intn(4) == 0 && n > w {
			cs.Report = true
		}
		c.Calls = append(c.Calls, cs)
	}
	c.Mode = []string{"sequential", "concurrent", "concurrent"}[rng.Intn(3)]
	if rng.Intn(4) == 0 {
		c.Variant = 1 + rng.Intn(2) // non-period parameters (smoothing, percentage, multiplier...) off their defaults
	}
	if c.Mode == "concurrent" && rng.Intn(4) == 0 {
		c.Lock = true
	}
	if c.Mode == "sequential" && rng.Intn(3) == 0 {
		// the caller reconfigures the instance between two calls (the exported period fields are the
		// configuration): anything derived from them and kept on the instance goes stale
		k := 1 + rng.Intn(len(c.Calls)-1)
		c.Calls[k].Rescale = 2 + rng.Intn(2)
	}
	return c
}

func (c09) Shrinks(c *Case) []*Case {
	var out []*Case
	if len(c.Calls) > 2 {
		for i := range c.Calls {
			d := *c
			d.Calls = append(append([]CallSpec{}, c.Calls[:i]...), c.Calls[i+1:]...)
			out = append(out, &d)
		}
	}
	for i, cs := range c.Calls {
		if cs.Len > 0 {
			d := *c
			d.Calls = append([]CallSpec{}, c.Calls...)
			d.Calls[i].Len = cs.Len / 2
			out = append(out, &d)
			e := *c
			e.Calls = append([]CallSpec{}, c.Calls...)
			e.Calls[i].Len = cs.Len - 1
			out = append(out, &e)
		}
		if cs.Report {
			d := *c
			d.Calls = append([]CallSpec{}, c.Calls...)
			d.Calls[i].Report = false
			out = append(out, &d)
		}
		if cs.Rescale > 1 {
			d := *c
			d.Calls = append([]CallSpec{}, c.Calls...)
			d.Calls[i].Rescale = 0
			out = append(out, &d)
		}
	}
	if c.Cap > 0 {
		d := *c
		d.Cap = 0
		out = append(out, &d)
	}
	if c.Mode == "concurrent" {
		d := *c
		d.Mode = "sequential"
		out = append(out, &d)
	}
	if c.Variant != 0 {
		d := *c
		d.Variant = 0
		out = append(out, &d)
	}
	return out
}

func (c09) Run(c *Case, st *Stats) []Violation {
	cfgClass := "default"
	if len(c.Cfg) > 0 {
		cfgClass = fmt.Sprint(c.Cfg)
	} else if c.Scale > 1 {
		cfgClass = fmt.Sprintf("scaled/%d", c.Scale)
	}
	var vs []Violation
	entity := c.Entity
	if c.Family == "strat" {
		entity = specName(c.spec())
	}
	desc := fmt.Sprintf("%s cfg=%v scale=%d variant=%d mode=%s calls=%v cap=%d policy=%s: ", entity, c.Cfg, c.Scale, c.Variant, c.Mode, c.Calls, c.Cap, c.Policy.Name)
	var simOut *SimOut
	add := func(kind, detail string) {
		vs = append(vs, Violation{Prop: "C09", Entity: entity, Kind: kind, Regime: c.Mode, Detail: desc + detail, Decisions: simOut.Decisions})
	}
	sequential := c.Mode == "sequential"
	skipIdleDecl = c.Seed%2 == 0
	askTwin = false
	defer func() { skipIdleDecl, askTwin = false, true }()
	opts := SimOpts{Policy: c.Policy, Record: c.Record, MaxSteps: 6_000_000}
	switch c.Family {
	case "ind":
		e := indByName[c.Entity]
		// (the shared instance is made inside the simulation, like everything else the calls touch: a
		// channel or timer that a constructor creates would otherwise lie outside the bubble, and a
		// task blocked on it would not count as blocked)
		var shared *IndInstance
		res := make([]*PipeResult[F], len(c.Calls))
		inputs := make([][][]F, len(c.Calls))
		for k, cs := range c.Calls {
			lens := make([]int, len(e.Sig))
			for i := range lens {
				lens[i] = cs.Len
			}
			inputs[k] = floatInputs(e.Sig, lens, cs.Shape, cs.DataSeed)
			res[k] = &PipeResult[F]{}
		}
		// freshInd: a fresh instance in the configuration the shared one has at call k
		freshInd := func(k int) *IndInstance {
			f := makeIndV(e, c.Cfg, c.Scale, c.Variant)
			for _, cs := range c.Calls[:k+1] {
				if cs.Rescale > 1 && sequential && !e.NoScale {
					rescaleExported(reflect.ValueOf(f.Inst), cs.Rescale, 0)
				}
			}
			return f
		}
		simOut = simulate(opts, func(s *simrt.Sim) {
			shared = makeIndV(e, c.Cfg, c.Scale, c.Variant)
			var ls *lockstep[F]
			if c.Lock && !sequential {
				// (the channel is made inside the simulation: blocking on one made outside would not count as blocked)
				ls = &lockstep[F]{regs: make(chan lsReg[F], len(c.Calls)), n: len(c.Calls)}
				st.Faults["outputs-of-all-calls-read-in-lock-step-by-one-consumer"]++
				ls.consume()
			}
			for k := range c.Calls {
				if c.Calls[k].Rescale > 1 && sequential && !e.NoScale {
					rescaleExported(reflect.ValueOf(shared.Inst), c.Calls[k].Rescale, 0)
					st.Faults["instance-reconfigured-between-calls"]++
				}
				spawnPipe(c.Cap, inputs[k], shared.Build(), res[k], ls)
				if sequential && s.Run() != nil {
					return
				}
			}
		})
		st.noteSim(simOut)
		if simOut.Err != nil {
			return nil
		}
		for k := range c.Calls {
			if ok, kind, detail := termination(simOut, res[k].Closed, res[k].ProdDone, res[k].Built); !ok {
				// a run that does not terminate with a fresh instance either is C03's business
				fresh := runPipe(PipeOpts{SimOpts: SimOpts{Policy: simrt.PolicySpec{Name: "fifo"}}}, inputs[k], func(in []<-chan F) []<-chan F { return freshInd(k).Build()(in) })
				st.noteSim(&fresh.SimOut)
				if okf, _, _ := termination(&fresh.SimOut, fresh.Closed, fresh.ProdDone, fresh.Built); okf {
					add(kind+"-on-shared-instance", fmt.Sprintf("call %d: %s (a fresh instance terminates)", k, detail))
				} else {
					st.Skipped["not-evaluated:fresh-instance-does-not-terminate(C03)"]++
				}
				return vs
			}
		}
		for k := range c.Calls {
			fresh := runPipe(PipeOpts{SimOpts: SimOpts{Policy: simrt.PolicySpec{Name: "fifo"}}}, inputs[k], func(in []<-chan F) []<-chan F { return freshInd(k).Build()(in) })
			st.noteSim(&fresh.SimOut)
			if okf, _, _ := termination(&fresh.SimOut, fresh.Closed, fresh.ProdDone, fresh.Built); !okf {
				continue
			}
			if same, why := sameFloats(res[k].Outs, fresh.Outs); !same {
				add("differs-from-fresh-instance", fmt.Sprintf("call %d of %d on the shared instance: %s", k, len(c.Calls), why))
				break
			}
			st.Probes["calls-compared-with-fresh-instance"]++
		}
	case "strat":
		var shared strategy.Strategy // made inside the simulation (see above)
		res := make([]*PipeResult[strategy.Action], len(c.Calls))
		html := make([]*bytes.Buffer, len(c.Calls))
		rendered := make([]bool, len(c.Calls))
		series := make([][]*asset.Snapshot, len(c.Calls))
		for k, cs := range c.Calls {
			series[k] = genSnapshots(cs.Len, cs.Shape, cs.DataSeed, epoch)
			res[k] = &PipeResult[strategy.Action]{}
			html[k] = &bytes.Buffer{}
		}
		freshStrat := func(k int) strategy.Strategy {
			f := buildStrategyV(c.spec(), c.Variant)
			for _, cs := range c.Calls[:k+1] {
				if cs.Rescale > 1 && sequential {
					rescaleExported(reflect.ValueOf(f), cs.Rescale, 0)
				}
			}
			return f
		}
		report := func(s strategy.Strategy, k int, buf *bytes.Buffer, done *bool) {
			in := make(chan *asset.Snapshot, c.Cap)
			simrt.GoKind("prod", func() {
				for _, v := range series[k] {
					prodYield()
					in <- v
				}
				simrt.Yield(-3, "prod-close")
				close(in)
			})
			simrt.GoKind("client", func() {
				if err := s.Report(in).WriteToWriter(buf); err != nil {
					buf.WriteString("ERROR " + err.Error())
				}
				*done = true
			})
		}
		simOut = simulate(opts, func(s *simrt.Sim) {
			shared = buildStrategyV(c.spec(), c.Variant)
			var ls *lockstep[strategy.Action]
			if c.Lock && !sequential {
				n := 0
				for _, cs := range c.Calls {
					if !cs.Report {
						n++
					}
				}
				if n >= 2 {
					ls = &lockstep[strategy.Action]{regs: make(chan lsReg[strategy.Action], n), n: n}
					st.Faults["outputs-of-all-calls-read-in-lock-step-by-one-consumer"]++
					ls.consume()
				}
			}
			for k, cs := range c.Calls {
				if cs.Rescale > 1 && sequential {
					rescaleExported(reflect.ValueOf(shared), cs.Rescale, 0)
					st.Faults["instance-reconfigured-between-calls"]++
				}
				if cs.Report {
					report(shared, k, html[k], &rendered[k])
				} else {
					spawnPipe(c.Cap, [][]*asset.Snapshot{series[k]}, func(in []<-chan *asset.Snapshot) []<-chan strategy.Action {
						return []<-chan strategy.Action{shared.Compute(in[0])}
					}, res[k], ls)
				}
				if sequential && s.Run() != nil {
					return
				}
			}
		})
		st.noteSim(simOut)
		if simOut.Err != nil {
			return nil
		}
		for k, cs := range c.Calls {
			if cs.Report {
				var fbuf bytes.Buffer
				fdone := false
				fo := simulate(SimOpts{Policy: simrt.PolicySpec{Name: "fifo"}}, func(s *simrt.Sim) { report(freshStrat(k), k, &fbuf, &fdone) })
				st.noteSim(fo)
				if !fdone {
					st.Skipped["not-evaluated:fresh-instance-does-not-terminate(C03)"]++
					continue
				}
				if !rendered[k] {
					add("deadlock-on-shared-instance", fmt.Sprintf("call %d (Report) never returned; %s", k, stuckSummary(simOut.Stuck)))
					break
				}
				if stripGenerated(html[k].String()) != stripGenerated(fbuf.String()) {
					add("differs-from-fresh-instance", fmt.Sprintf("call %d (Report): rendered report differs from a fresh instance's", k))
					break
				}
				st.Probes["reports-compared-with-fresh-instance"]++
				continue
			}
			fresh := runPipe(PipeOpts{SimOpts: SimOpts{Policy: simrt.PolicySpec{Name: "fifo"}}}, [][]*asset.Snapshot{series[k]},
				func(in []<-chan *asset.Snapshot) []<-chan strategy.Action {
					return []<-chan strategy.Action{freshStrat(k).Compute(in[0])}
				})
			st.noteSim(&fresh.SimOut)
			okf, _, _ := termination(&fresh.SimOut, fresh.Closed, fresh.ProdDone, fresh.Built)
			if !okf {
				st.Skipped["not-evaluated:fresh-instance-does-not-terminate(C03)"]++
				continue
			}
			if !res[k].Built || !allTrue(res[k].Closed) || !allTrue(res[k].ProdDone) {
				add("deadlock-on-shared-instance", fmt.Sprintf("call %d: outputs closed=%v; %s (a fresh instance terminates)", k, res[k].Closed, stuckSummary(simOut.Stuck)))
				break
			}
			if same, why := sameActions(res[k].Outs, fresh.Outs); !same {
				add("differs-from-fresh-instance", fmt.Sprintf("call %d of %d on the shared instance: %s", k, len(c.Calls), why))
				break
			}
			st.Probes["calls-compared-with-fresh-instance"]++
		}
		if len(vs) == 0 {
			if lib := simOut.LibStuck(); len(lib) > 0 {
				// leaks that a fresh instance shows as well are C03/C14 findings, not reuse findings
				st.Probes["census-not-empty(see C03/C14)"]++
			}
		}
	}
	if len(simOut.Panics) > 0 {
		add("panic", fmt.Sprint(simOut.Panics))
	}
	if c.Mode == "concurrent" {
		st.Faults["calls-alive-at-once"] += len(c.Calls)
	} else {
		st.Faults["instance-reused-after-completed-call"] += len(c.Calls) - 1
	}
	if c.Mode == "sequential" || simOut.NonFifo > 0 {
		st.cell(c.Family, entity, cfgClass, c.Mode, fmt.Sprint(len(c.Calls)), c.Policy.Name)
	}
	return vs
}
