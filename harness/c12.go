package harness

import (
	"bytes"
	"compress/gzip"
	"encoding/json"
	"errors"
	"fmt"
	"math/rand"
	"net/http"
	"os"
	"path/filepath"
	"sort"
	"strings"
	"sync"
	"time"

	"github.com/cinar/indicator/v2/asset"
	"simrt"
)

// FaultRepo wraps a repository: it fails GetSince / Append / LastDate for chosen assets while
// faults are switched on, returns Assets() in a PRNG-permuted order (Go's map order cannot be
// seeded) and counts calls. A failing Append consumes At snapshots into the wrapped repository,
// drains the rest of its input (so that the producer side is not blamed for the stub's failure)
// and returns an error.
type FaultRepo struct {
	mu          sync.Mutex
	Inner       asset.Repository
	On          bool
	FailGet     map[string]bool
	FailAppend  map[string]int // name -> number of snapshots accepted before the error (>= 0)
	Order       []int
	Fired       map[string]int
	AppendCalls map[string]int
	GetCalls    map[string]int
}

func newFaultRepo(inner asset.Repository) *FaultRepo {
	return &FaultRepo{Inner: inner, FailGet: map[string]bool{}, FailAppend: map[string]int{}, Fired: map[string]int{}, AppendCalls: map[string]int{}, GetCalls: map[string]int{}}
}

func (f *FaultRepo) Assets() ([]string, error) {
	names, err := f.Inner.Assets()
	if err != nil {
		return nil, err
	}
	sort.Strings(names)
	out := make([]string, 0, len(names))
	used := map[int]bool{}
	for _, k := range f.Order {
		if k < len(names) && !used[k] {
			out = append(out, names[k])
			used[k] = true
		}
	}
	for k, n := range names {
		if !used[k] {
			out = append(out, n)
		}
	}
	return out, nil
}

func (f *FaultRepo) Get(name string) (<-chan *asset.Snapshot, error) { return f.Inner.Get(name) }

func (f *FaultRepo) GetSince(name string, d time.Time) (<-chan *asset.Snapshot, error) {
	f.mu.Lock()
	f.GetCalls[name]++
	fail := f.On && f.FailGet[name]
	if fail {
		f.Fired["repo-getsince-error"]++
	}
	f.mu.Unlock()
	if fail {
		return nil, errors.New("injected GetSince failure for " + name)
	}
	return f.Inner.GetSince(name, d)
}

func (f *FaultRepo) LastDate(name string) (time.Time, error) { return f.Inner.LastDate(name) }

func (f *FaultRepo) Append(name string, snapshots <-chan *asset.Snapshot) error {
	f.mu.Lock()
	f.AppendCalls[name]++
	k, ok := f.FailAppend[name]
	ok = ok && f.On
	if ok {
		f.Fired["repo-append-error"]++
	}
	f.mu.Unlock()
	if ok {
		part := make(chan *asset.Snapshot)
		done := make(chan error, 1)
		simrt.GoKind("stub", func() { done <- f.Inner.Append(name, part) })
		n := 0
		for {
			simrt.Yield(-13, "stub-recv")
			v, ok := <-snapshots
			if !ok {
				break
			}
			if n < k {
				simrt.Yield(-14, "stub-send")
				part <- v
				n++
			}
		}
		close(part)
		simrt.Yield(-15, "stub-wait")
		<-done
		return errors.New("injected Append failure for " + name)
	}
	return f.Inner.Append(name, snapshots)
}

// C12: Sync copies exactly the missing snapshots, once, for every asset.
type c12 struct{}

func init() { register(c12{}) }

func (c12) ID() string { return "C12" }

func (c12) Rule() string {
	return "case = (1-5 assets with drawn source and target contents: target last date before, on, between and after source dates, target lacking the asset, target empty, asset missing on the source; explicit asset list or taken from the target; workers 1..8; delay 0/1/5 s on the simulated clock; target implementation in-memory / file-system / SQL; subsets of assets whose source read or target append fails (append failing after k snapshots); three consecutive runs: with faults, fault-free, fault-free again; scheduling policy+seed incl. timers firing while other workers are mid-copy); " +
		"oracle: reference sync model over the recorded contents: un-faulted assets hold previous ++ source snapshots dated after the previous last date (on/after the default start when there was none) in order without duplicates, faulted assets hold a prefix of that, Run returns an error iff an asset failed, the second run completes everything, the third changes nothing, Run returns within the step budget and within assets x delay simulated seconds; " +
		"a cell (target implementation, workers class 1/2-3/4-8, delay, fault kinds, list mode, policy) is non-trivial when workers > 1 with a non-FIFO schedule, or a fault fired; distinct_nontrivial counts distinct cells"
}

func (c12) Components() (real, stub []string) {
	return []string{"asset.Sync, asset.InMemoryRepository, asset.FileSystemRepository, asset.SQLRepository (AST-instrumented copy)", "database/sql", "the OS file system"},
		[]string{"simulated clock (time.Sleep -> controller-owned discrete-event clock)", "FaultRepo wrappers around source and target (per-asset GetSince / Append failures, PRNG-ordered Assets)", "simsql driver", "scheduler: simrt controller"}
}

func (c12) Gen(rng *rand.Rand, tier string, k int) *Case {
	c := &Case{Family: "sync", Impl: []string{"memory", "memory", "file", "sql"}[rng.Intn(4)]}
	c.Entity = "asset.Sync>" + c.Impl
	na := 1 + rng.Intn(5)
	many := rng.Intn(40) == 0
	if many {
		na = 60 + rng.Intn(90) // far more assets than workers or any fixed-size queue
	}
	for i := 0; i < na; i++ {
		name := string(rune('A' + i))
		if many {
			name = fmt.Sprintf("N%03d", i)
		} else if rng.Intn(6) == 0 {
			// tickers with share classes and suffixes: BRK.B, RDS.A, X.y.z, a trailing "-", an inner space
			name = []string{"BRK.B", "RDS.A", "X.y.z", "T-", "A B"}[i%5]
		}
		a := AssetSpec{Name: name, SrcFrom: rng.Intn(6), SrcN: rng.Intn(8), TgtFrom: rng.Intn(6), TgtN: rng.Intn(6), Seed: rng.Int63n(1 << 30)}
		switch rng.Intn(8) {
		case 0:
			a.TgtAbsent = true
		case 1:
			a.SrcAbsent = true
		case 2:
			a.TgtN = 0
		case 3:
			a.TgtN, a.TgtEmpty = 0, true
		}
		if c.Impl == "file" && rng.Intn(10) == 0 {
			a.TgtLink = true
		}
		if many {
			a.SrcN, a.TgtN = rng.Intn(3), rng.Intn(2)
		} else if rng.Intn(40) == 0 {
			a.SrcN = 257 + rng.Intn(500) // a long backlog copied in one run
		}
		if a.SrcN >= 3 && rng.Intn(8) == 0 {
			a.SrcSwap = 1 + rng.Intn(a.SrcN-2) // the source is not in date order (its latest snapshot is still its last)
		}
		c.Assets = append(c.Assets, a)
	}
	if !many && len(c.Assets) >= 2 && rng.Intn(10) == 0 {
		// two tickers that differ only in case (the repositories tell them apart)
		c.Assets[1].Name = strings.ToLower(c.Assets[0].Name)
		if c.Assets[1].Name == c.Assets[0].Name {
			c.Assets[1].Name = strings.ToUpper(c.Assets[0].Name)
		}
		if c.Assets[1].Name == c.Assets[0].Name {
			c.Assets[1].Name = "B"
		}
	}
	c.Workers = []int{1, 1, 2, 3, 4, 8}[rng.Intn(6)]
	c.Delay = []int{0, 1, 5}[rng.Intn(3)]
	c.Param = []int{rng.Intn(8), 0, 0} // default start day, date mode, default start with a time of day
	if rng.Intn(4) == 0 {
		c.Param[2] = 1
	}
	if c.Impl != "file" && rng.Intn(6) == 0 {
		// local midnights in a daylight-saving zone (the file-system target stores dates without a
		// zone, so it is left out: its round trip turns them into UTC days)
		c.Param[1] = 1 + rng.Intn(2)
	} else if rng.Intn(6) == 0 {
		c.Param[1] = 3 // turn of the year (whole UTC days: every target implementation)
	}
	if rng.Intn(2) == 0 {
		c.Mode = "explicit"
		for _, a := range c.Assets {
			if rng.Intn(5) > 0 {
				c.Names = append(c.Names, a.Name)
			}
		}
		if len(c.Names) == 0 {
			c.Names = []string{c.Assets[0].Name}
		}
		rng.Shuffle(len(c.Names), func(i, j int) { c.Names[i], c.Names[j] = c.Names[j], c.Names[i] })
	} else {
		c.Mode = "from-target"
		c.Perm = rng.Perm(na)
	}
	if rng.Intn(2) == 0 {
		for _, a := range c.Assets {
			switch rng.Intn(5) {
			case 0:
				c.Faults = append(c.Faults, FaultSpec{Kind: "getsince-fail", Name: a.Name})
			case 1:
				c.Faults = append(c.Faults, FaultSpec{Kind: "append-fail", Name: a.Name, At: rng.Intn(4)})
			}
		}
	}
	if c.Impl == "file" && rng.Intn(3) == 0 {
		// the target's disk: full after k bytes, a failing close, an append-open that fails
		for _, i := range rng.Perm(len(c.Assets))[:1+rng.Intn(min(2, len(c.Assets)))] {
			kind := []string{"fs-write-budget", "fs-write-budget", "fs-close-error", "fs-open-write-error"}[rng.Intn(4)]
			// one fault per asset: the stub of a failing Append feeds the real Append and would wait for it
			keep := c.Faults[:0:0]
			for _, f := range c.Faults {
				if f.Name != c.Assets[i].Name {
					keep = append(keep, f)
				}
			}
			c.Faults = append(keep, FaultSpec{Kind: kind, Name: "/" + c.Assets[i].Name + ".csv", At: rng.Intn([]int{20, 60, 150}[rng.Intn(3)]), N: 1})
		}
	}
	// an asset whose source is not in date order is synchronised without faults: resuming after a
	// partial append goes by the target's last date, which presupposes date order
	for _, a := range c.Assets {
		if a.SrcSwap > 0 {
			keep := c.Faults[:0:0]
			for _, f := range c.Faults {
				if f.Name != a.Name && f.Name != "/"+a.Name+".csv" {
					keep = append(keep, f)
				}
			}
			c.Faults = keep
		}
	}
	if rng.Intn(5) == 0 && c.Param[1] == 0 {
		// the source is the Tiingo client talking to a simulated server (the default source of
		// cmd/indicator-sync); tickers that can stand in a URL path, UTC days, date order
		ok := true
		for _, a := range c.Assets {
			ok = ok && urlSafeName(a.Name) && a.SrcSwap == 0
		}
		if ok {
			c.Shape = 1
			if !many && rng.Intn(30) == 0 {
				// a history of twenty years asked for in one go: a response of more than a megabyte
				a := &c.Assets[0]
				a.SrcN, a.SrcFrom, a.SrcAbsent, a.TgtFrom, a.TgtN = 5200+rng.Intn(600), 0, false, 0, rng.Intn(3)
			}
		}
	}
	c.Policy = genPolicy(rng)
	return c
}

func urlSafeName(n string) bool {
	for _, r := range n {
		if !(r >= 'A' && r <= 'Z' || r >= 'a' && r <= 'z' || r >= '0' && r <= '9' || r == '.' || r == '-' || r == '_') {
			return false
		}
	}
	return n != ""
}

// tiingoServer is the simulated Tiingo end-of-day service of a sync case: it answers
// /tiingo/daily/<ticker>/prices?startDate=<day> with the ticker's rows dated on or after that
// day (as the real service does), 404 for a ticker it does not have; bodies arrive in fragments.
type tiingoServer struct {
	mu    sync.Mutex
	data  map[string][]*asset.Snapshot
	frag  []int
	calls int
	bytes int
}

func (t *tiingoServer) RoundTrip(req *http.Request) (*http.Response, error) {
	simrt.Yield(-10, "http-roundtrip")
	parts := strings.Split(strings.Trim(req.URL.Path, "/"), "/")
	status, body := 404, []byte(`{"detail":"Not found."}`)
	if len(parts) == 4 && parts[0] == "tiingo" && parts[1] == "daily" && parts[3] == "prices" {
		start, err := time.Parse("2006-01-02", req.URL.Query().Get("startDate"))
		t.mu.Lock()
		rows, ok := t.data[parts[2]]
		t.calls++
		t.mu.Unlock()
		if err != nil {
			status, body = 400, []byte(`{"detail":"bad startDate"}`)
		} else if ok {
			// elements are written member by member; like some providers, the server leaves out
			// members whose value is zero (no volume on a halted day)
			out := []map[string]any{}
			for _, s := range rows {
				if !s.Date.Before(start) {
					e := asset.TiingoEndOfDay{Date: s.Date.UTC(), Open: s.Open, High: s.High, Low: s.Low, Close: s.Close, Volume: int64(s.Volume),
						AdjOpen: s.Open, AdjHigh: s.High, AdjLow: s.Low, AdjClose: s.Close, AdjVolume: int64(s.Volume), Split: 1}
					b, _ := json.Marshal(e)
					m := map[string]any{}
					json.Unmarshal(b, &m)
					for k, v := range m {
						if f, ok := v.(float64); ok && f == 0 {
							delete(m, k)
						}
					}
					out = append(out, m)
				}
			}
			status = 200
			body, _ = json.Marshal(out)
		}
	}
	t.mu.Lock()
	t.bytes = max(t.bytes, len(body))
	t.mu.Unlock()
	hdr := http.Header{}
	body = negotiateEncoding(req, hdr, body)
	return &http.Response{
		StatusCode: status, Status: fmt.Sprintf("%d %s", status, http.StatusText(status)),
		Proto: "HTTP/1.1", ProtoMajor: 1, ProtoMinor: 1, Header: hdr, Request: req, ContentLength: -1,
		Body: &FragReader{Data: body, Frag: t.frag, ErrAt: -1, Ctx: req.Context()},
	}, nil
}

// negotiateEncoding is the content negotiation of the simulated servers. net/http's transport asks
// for gzip on its own and then decompresses transparently - that never reaches a RoundTripper that
// stands in for it. A caller that sets Accept-Encoding itself is handed the compressed bytes, as
// by the real transport, and has to decode them.
func negotiateEncoding(req *http.Request, hdr http.Header, body []byte) []byte {
	if !strings.Contains(req.Header.Get("Accept-Encoding"), "gzip") {
		return body
	}
	var buf bytes.Buffer
	zw := gzip.NewWriter(&buf)
	zw.Write(body)
	zw.Close()
	hdr.Set("Content-Encoding", "gzip")
	return buf.Bytes()
}

func (c12) Shrinks(c *Case) []*Case {
	var out []*Case
	if len(c.Assets) > 1 {
		for i := range c.Assets {
			d := *c
			d.Assets = append(append([]AssetSpec{}, c.Assets[:i]...), c.Assets[i+1:]...)
			name := c.Assets[i].Name
			d.Names = nil
			for _, n := range c.Names {
				if n != name {
					d.Names = append(d.Names, n)
				}
			}
			if c.Mode == "explicit" && len(d.Names) == 0 {
				continue
			}
			d.Faults = nil
			for _, f := range c.Faults {
				if f.Name != name {
					d.Faults = append(d.Faults, f)
				}
			}
			out = append(out, &d)
		}
	}
	for i := range c.Faults {
		d := *c
		d.Faults = append(append([]FaultSpec{}, c.Faults[:i]...), c.Faults[i+1:]...)
		out = append(out, &d)
	}
	if c.Workers > 1 {
		d := *c
		d.Workers = c.Workers / 2
		out = append(out, &d)
	}
	if c.Delay > 0 {
		d := *c
		d.Delay = 0
		out = append(out, &d)
	}
	for i, a := range c.Assets {
		if a.SrcN > 16 {
			d := *c
			d.Assets = append([]AssetSpec{}, c.Assets...)
			d.Assets[i].SrcN = a.SrcN / 2
			out = append(out, &d)
		}
		if a.SrcN > 0 {
			d := *c
			d.Assets = append([]AssetSpec{}, c.Assets...)
			d.Assets[i].SrcN--
			out = append(out, &d)
		}
		if a.TgtN > 0 {
			d := *c
			d.Assets = append([]AssetSpec{}, c.Assets...)
			d.Assets[i].TgtN--
			out = append(out, &d)
		}
	}
	if c.Impl != "memory" {
		d := *c
		d.Impl = "memory"
		d.Entity = "asset.Sync>memory"
		out = append(out, &d)
	}
	return out
}

// syncBase is day 0 of a sync case. Mode 0: UTC. Modes 1 and 2: local midnights in a zone with
// daylight saving, placed so that the drawn days straddle the spring-forward day ("one day after
// the last date" is a calendar day there, not 24 hours).
func syncBase(c *Case) time.Time {
	mode := 0
	if len(c.Param) > 1 {
		mode = c.Param[1]
	}
	switch mode {
	case 1:
		if loc, err := time.LoadLocation("America/New_York"); err == nil {
			return time.Date(2020, 3, 4, 0, 0, 0, 0, loc) // 2020-03-08 is day 4
		}
	case 2:
		if loc, err := time.LoadLocation("Europe/Berlin"); err == nil {
			return time.Date(2021, 3, 25, 0, 0, 0, 0, loc) // 2021-03-28 is day 3
		}
	}
	if mode == 3 {
		return time.Date(2003, 12, 27, 0, 0, 0, 0, time.UTC) // the data straddles the turn of the year
	}
	return base2000
}

func syncSnapshots(base time.Time, from, n int, seed int64, tag float64) []*asset.Snapshot {
	rng := rand.New(rand.NewSource(seed))
	out := make([]*asset.Snapshot, n)
	for i := range out {
		p := 10 + 90*rng.Float64()
		out[i] = &asset.Snapshot{Date: base.AddDate(0, 0, from+i), Open: p, High: p + 1, Low: p - 1, Close: p + 0.5, Volume: tag}
	}
	return out
}

func readAll(repo asset.Repository, name string) ([]*asset.Snapshot, bool) {
	ch, err := repo.Get(name)
	if err != nil {
		return nil, false
	}
	var got []*asset.Snapshot
	for {
		consYield()
		v, ok := <-ch
		if !ok {
			return got, true
		}
		got = append(got, v)
	}
}

func fill(repo asset.Repository, name string, snaps []*asset.Snapshot) error {
	ch := make(chan *asset.Snapshot)
	simrt.GoKind("prod", func() {
		for _, v := range snaps {
			prodYield()
			ch <- v
		}
		simrt.Yield(-3, "prod-close")
		close(ch)
	})
	return repo.Append(name, ch)
}

func wclass(w int) string {
	switch {
	case w == 1:
		return "w=1"
	case w <= 3:
		return "w=2-3"
	}
	return "w=4-8"
}

func (c12) Run(c *Case, st *Stats) []Violation {
	var vs []Violation
	add := func(kind, regime, detail string) {
		vs = append(vs, Violation{Prop: "C12", Entity: c.Entity, Kind: kind, Regime: regime,
			Detail: fmt.Sprintf("%s workers=%d delay=%d start=day%d list=%s%v assets=%+v faults=%v: %s", c.Entity, c.Workers, c.Delay, c.Param[0], c.Mode, c.Names, c.Assets, c.Faults, detail)})
	}
	base := syncBase(c)
	defaultStart := base.AddDate(0, 0, c.Param[0])
	if len(c.Param) > 2 && c.Param[2] == 1 && c.Shape != 1 {
		// the default start is an instant, not a day (cmd/indicator-sync passes "now minus n days"): a
		// snapshot dated at midnight of that day lies before it. (Not with the Tiingo source, whose
		// protocol can only express days.)
		defaultStart = defaultStart.Add(14*time.Hour + 30*time.Minute)
		st.Faults["default-start-date-with-a-time-of-day"]++
	}
	if len(c.Param) > 2 && c.Param[2] == 1 && c.Shape == 1 && base == base2000 {
		// with the Tiingo source: the same calendar day, one hour after midnight in a zone three hours
		// ahead of UTC ("now" on a machine east of Greenwich). The request names that calendar day;
		// the source's rows of that day (UTC midnights) lie after the instant, those of the day before do not
		y, m, d := defaultStart.Date()
		defaultStart = time.Date(y, m, d, 1, 0, 0, 0, time.FixedZone("", 3*3600))
		st.Faults["default-start-date-in-a-zone-ahead-of-utc"]++
	}
	if base != base2000 {
		st.Faults["dates-in-a-daylight-saving-zone"]++
	}
	dir, dbName, srcDir, linkDir := "", "", "", ""
	var server *tiingoServer
	oldTransport := http.DefaultTransport
	defer func() {
		http.DefaultTransport = oldTransport
		if server != nil && server.bytes > 1<<20 {
			st.Probes["source-responses-longer-than-a-megabyte"]++
		}
	}()
	clientDone := false
	var srcF, tgtF *FaultRepo
	var runTimes []float64
	fsFired := false
	out := simulate(SimOpts{Policy: c.Policy, Record: c.Record, MaxSteps: 3_000_000}, func(s *simrt.Sim) {
		simrt.GoKind("client", func() {
			defer func() { clientDone = true }()
			var src, tgt asset.Repository
			src = asset.NewInMemoryRepository()
			// every third case builds its repositories the way cmd/indicator-sync does: by kind and
			// configuration through the factory; half of those read from a file-system source
			// (only without file faults and with UTC dates: the fault plan and the zone tests are
			// about the target)
			factory := c.Seed%3 == 0
			fsSource := factory && c.Seed%2 == 0 && base == base2000 && c.Shape != 1
			for _, f := range c.Faults {
				if strings.HasPrefix(f.Kind, "fs-") {
					fsSource = false
				}
			}
			build := func(kind, config string) asset.Repository {
				r, err := asset.NewRepository(kind, config)
				if err != nil {
					add("constructor-error", "-", err.Error())
					return nil
				}
				st.Probes["repositories-built-by-the-factory"]++
				return r
			}
			if c.Shape == 1 {
				server = &tiingoServer{data: map[string][]*asset.Snapshot{}, frag: []int{7, 512, 1, 4096}}
				http.DefaultTransport = server
				src = asset.NewTiingoRepository("key")
				st.Faults["source-is-the-tiingo-client-over-a-simulated-server"]++
			} else if fsSource {
				srcDir = runDir()
				if src = build(asset.FileSystemRepositoryBuilderName, srcDir); src == nil {
					return
				}
				st.Faults["file-system-source"]++
			} else if factory && c.Shape != 1 {
				if src = build(asset.InMemoryRepositoryBuilderName, ""); src == nil {
					return
				}
			}
			switch c.Impl {
			case "memory":
				tgt = asset.NewInMemoryRepository()
				if factory {
					if tgt = build(asset.InMemoryRepositoryBuilderName, ""); tgt == nil {
						return
					}
				}
			case "file":
				dir = runDir()
				tgt = asset.NewFileSystemRepository(dir)
				if factory {
					if tgt = build(asset.FileSystemRepositoryBuilderName, dir); tgt == nil {
						return
					}
				}
			case "sql":
				dbName = fmt.Sprintf("db-%d-%d", os.Getpid(), runDirSeq.Add(1))
				simDBsMu.Lock()
				simDBs[dbName] = &simDB{}
				simDBsMu.Unlock()
				r, err := asset.NewSQLRepository("simsql", dbName, simDialect{})
				if err != nil {
					add("constructor-error", "-", err.Error())
					return
				}
				defer r.Close()
				tgt = r
			}
			srcData := map[string][]*asset.Snapshot{}
			before := map[string][]*asset.Snapshot{}
			inTarget := map[string]bool{}
			for _, a := range c.Assets {
				if !a.SrcAbsent {
					srcData[a.Name] = syncSnapshots(base, a.SrcFrom, a.SrcN, a.Seed, 1)
					if k := a.SrcSwap; k > 0 && k < len(srcData[a.Name])-1 {
						d := srcData[a.Name]
						d[k-1], d[k] = d[k], d[k-1]
						st.Faults["source-not-in-date-order"]++
					}
					if server != nil {
						for k, sn := range srcData[a.Name] {
							if k%3 == 1 {
								sn.Volume = 0 // a halted day: the provider leaves the volume members out
							}
						}
						server.mu.Lock()
						server.data[a.Name] = srcData[a.Name]
						server.mu.Unlock()
					} else if err := fill(src, a.Name, srcData[a.Name]); err != nil {
						add("setup-error", "-", err.Error())
						return
					}
				}
				if !a.TgtAbsent && a.TgtEmpty && c.Impl == "file" {
					// the usual way to register an asset in a file-system target: an empty file
					if err := os.WriteFile(filepath.Join(dir, a.Name+".csv"), nil, 0o644); err != nil {
						add("setup-error", "-", err.Error())
						return
					}
					inTarget[a.Name] = true
					st.Faults["target-asset-registered-by-empty-file"]++
				} else if !a.TgtAbsent {
					before[a.Name] = syncSnapshots(base, a.TgtFrom, a.TgtN, a.Seed+1, 2)
					if err := fill(tgt, a.Name, before[a.Name]); err != nil {
						add("setup-error", "-", err.Error())
						return
					}
					if c.Impl != "sql" || a.TgtN > 0 {
						inTarget[a.Name] = true
					}
				}
				if a.TgtLink && c.Impl == "file" && !a.TgtAbsent {
					// the asset's file is kept on another volume and linked into the repository directory
					if linkDir == "" {
						linkDir = runDir()
					}
					p, real := filepath.Join(dir, a.Name+".csv"), filepath.Join(linkDir, a.Name+".data")
					if err := os.Rename(p, real); err == nil {
						if err := os.Symlink(real, p); err != nil {
							add("setup-error", "-", err.Error())
							return
						}
						st.Faults["target-asset-file-is-a-symbolic-link"]++
					}
				}
			}
			srcF, tgtF = newFaultRepo(src), newFaultRepo(tgt)
			tgtF.Order = c.Perm
			faulted := map[string]bool{}
			for _, f := range c.Faults {
				switch f.Kind {
				case "getsince-fail":
					srcF.FailGet[f.Name] = true
				case "append-fail":
					tgtF.FailAppend[f.Name] = f.At
				default:
					continue // file faults: see plan
				}
				faulted[f.Name] = true
			}
			plan := fsPlan(c.Faults)
			fsFailed := func(n string) bool { return plan.FiredOn("/"+n+".csv") > 0 }
			// the asset list the run works on
			var list []string
			if c.Mode == "explicit" {
				list = c.Names
			} else {
				for _, a := range c.Assets {
					if inTarget[a.Name] {
						list = append(list, a.Name)
					}
				}
			}
			inList := map[string]bool{}
			for _, n := range list {
				inList[n] = true
			}
			// reference model: what a complete sync appends to each asset
			want := map[string][]*asset.Snapshot{}
			for _, a := range c.Assets {
				prev := before[a.Name]
				start := defaultStart
				if len(prev) > 0 {
					start = prev[len(prev)-1].Date.AddDate(0, 0, 1)
				}
				full := append([]*asset.Snapshot{}, prev...)
				for _, sn := range srcData[a.Name] {
					if !sn.Date.Before(start) {
						full = append(full, sn)
					}
				}
				want[a.Name] = full
			}
			srcMissing := func(n string) bool {
				_, ok := srcData[n]
				return !ok
			}
			for run := 1; run <= 3; run++ {
				srcF.On, tgtF.On = run == 1, run == 1
				sy := asset.NewSync()
				sy.Workers, sy.Delay = c.Workers, c.Delay
				if c.Mode == "explicit" {
					sy.Assets = append([]string{}, c.Names...)
				}
				t0 := s.Elapsed()
				if run == 1 {
					s.SetFaults(plan)
				}
				err := sy.Run(srcF, tgtF, defaultStart)
				s.SetFaults(nil)
				runTimes = append(runTimes, (s.Elapsed() - t0).Seconds())
				regime := fmt.Sprintf("run%d", run)
				if el := (s.Elapsed() - t0).Seconds(); el > float64(len(list)*c.Delay)+1e-9 {
					add("too-slow", regime, fmt.Sprintf("Run took %.0f simulated seconds for %d assets with delay %d", el, len(list), c.Delay))
					return
				}
				// expected error status
				wantErr := false
				for _, n := range list {
					if srcMissing(n) || (run == 1 && faulted[n]) || fsFailed(n) {
						wantErr = true
					}
				}
				if (err != nil) != wantErr {
					kind := "failure-not-reported"
					if err != nil {
						kind = "error-without-failure"
					}
					add(kind, regime, fmt.Sprintf("Run returned %v; assets that must fail in this run: %v", err, wantErr))
					return
				}
				// contents
				for _, a := range c.Assets {
					got, ok := readAll(tgt, a.Name)
					if c.Impl == "sql" && !ok {
						got, ok = nil, true
					}
					exp := want[a.Name]
					if fsFailed(a.Name) {
						continue // the write to this file failed part-way: its state is not specified
					}
					switch {
					case !inList[a.Name] || srcMissing(a.Name):
						exp = before[a.Name] // untouched
						if !ok && a.TgtAbsent {
							continue
						}
						if ok && a.TgtAbsent && len(got) == 0 {
							continue
						}
					case run == 1 && faulted[a.Name]:
						// unchanged or a prefix of the complete result, at least the previous content
						if !ok && a.TgtAbsent {
							continue
						}
						if len(got) < len(before[a.Name]) || len(got) > len(exp) {
							add("faulted-asset-corrupted", regime, fmt.Sprintf("asset %s holds %d snapshots, previous %d, complete %d", a.Name, len(got), len(before[a.Name]), len(exp)))
							return
						}
						exp = exp[:len(got)]
					}
					if !ok {
						if len(exp) == 0 {
							continue
						}
						add("asset-missing-in-target", regime, fmt.Sprintf("asset %s cannot be read from the target after the run, expected %d snapshots", a.Name, len(exp)))
						return
					}
					if len(got) != len(exp) {
						kind := "wrong-content"
						if len(got) > len(exp) {
							kind = "duplicated-or-extra-snapshots"
						} else if run >= 2 || !faulted[a.Name] {
							kind = "missing-snapshots"
						}
						add(kind, regime, fmt.Sprintf("asset %s holds %d snapshots %s, the model has %d %s", a.Name, len(got), days(got), len(exp), days(exp)))
						return
					}
					for i := range got {
						if !snapEq(got[i], exp[i]) {
							add("wrong-content", regime, fmt.Sprintf("asset %s snapshot %d is %s, the model has %s", a.Name, i, days(got[i:i+1]), days(exp[i:i+1])))
							return
						}
					}
				}
				st.Probes["runs-compared-with-model"]++
				if plan.TotalFired() > 0 {
					// reported, and the other assets are complete; what a later run makes of a
					// torn file is outside the statement
					st.Probes["runs-with-a-failed-target-file"]++
					fsFired = true
					for k, v := range plan.FiredKinds() {
						st.Faults[k] += v
					}
					return
				}
				if run == 3 {
					st.Probes["idempotence-runs"]++
				}
			}
		})
	})
	if dir != "" {
		os.RemoveAll(dir)
	}
	if srcDir != "" {
		os.RemoveAll(srcDir)
	}
	if linkDir != "" {
		os.RemoveAll(linkDir)
	}
	if dbName != "" {
		simDBsMu.Lock()
		delete(simDBs, dbName)
		simDBsMu.Unlock()
	}
	st.noteSim(out)
	fired := fsFired
	for _, f := range []*FaultRepo{srcF, tgtF} {
		if f != nil {
			for k, v := range f.Fired {
				st.Faults[k] += v
				fired = true
			}
		}
	}
	fk := ""
	for _, f := range c.Faults {
		fk += f.Kind[:1]
	}
	if fired || (c.Workers > 1 && out.NonFifo > 0) {
		st.cell(c.Impl, wclass(c.Workers), fmt.Sprint(c.Delay), fk, c.Mode, c.Policy.Name)
	}
	if c.Workers > 1 {
		st.Probes["multi-worker-runs"]++
	}
	if out.Err != nil {
		return nil
	}
	if len(out.Panics) > 0 {
		add("panic", "-", fmt.Sprint(out.Panics))
		return vs
	}
	if !clientDone && len(vs) == 0 {
		add("hang", "-", "Sync.Run never returned; "+stuckSummary(out.Stuck))
		return vs
	}
	if len(vs) == 0 {
		if lib := out.LibStuck(); len(lib) > 0 {
			if fsFired {
				// an Append that fails at open or mid-write returns without draining the stream it
				// was given; what becomes of the source's stream then is not part of the statement
				st.Probes["source-stream-left-undrained-after-failed-append(not claimed)"]++
			} else {
				add("leak", "-", stuckSummary(lib))
			}
		}
	}
	return vs
}

func days(s []*asset.Snapshot) string {
	r := "["
	for i, x := range s {
		if i > 0 {
			r += " "
		}
		src := "src"
		if x.Volume == 2 {
			src = "tgt"
		}
		r += fmt.Sprintf("%s:%s", src, x.Date.Format("01-02T15"))
	}
	return r + "]"
}
