package harness

import (
	"fmt"
	"math"
	"math/rand"

	"simrt"
)

// genPolicy draws a scheduling policy (swarm style: every run gets its own policy and knobs).
func genPolicy(rng *rand.Rand) simrt.PolicySpec {
	seed := rng.Int63()
	timer := []float64{0, 0.05, 0.3}[rng.Intn(3)]
	switch x := rng.Intn(100); {
	case x < 8:
		return simrt.PolicySpec{Name: "fifo"}
	case x < 13:
		return simrt.PolicySpec{Name: "lifo"}
	case x < 45:
		return simrt.PolicySpec{Name: "random", Seed: seed, Timer: timer}
	case x < 60:
		return simrt.PolicySpec{Name: "pct", Seed: seed, D: 1 + rng.Intn(5), Horiz: []int{50, 300, 2000, 10000}[rng.Intn(4)], Timer: timer}
	case x < 70:
		return simrt.PolicySpec{Name: "starve", Seed: seed, P: 0.1 + 0.4*rng.Float64(), Timer: timer}
	case x < 77:
		return simrt.PolicySpec{Name: "prod", Seed: seed, Timer: timer}
	case x < 84:
		return simrt.PolicySpec{Name: "cons", Seed: seed, Timer: timer}
	case x < 90:
		return simrt.PolicySpec{Name: "lib", Seed: seed, Timer: timer}
	default:
		return simrt.PolicySpec{Name: "stick", Seed: seed, P: 0.02 + 0.3*rng.Float64(), Timer: timer}
	}
}

// genIndConfig draws an entity configuration: explicit small periods, scaled defaults or defaults.
func genIndConfig(rng *rand.Rand, e *IndEntity, allowDefault bool) (cfg []int, scale int) {
	x := rng.Intn(100)
	switch {
	case e.NCfg > 0 && x < 60:
		cfg = make([]int, e.NCfg)
		for i := range cfg {
			cfg[i] = 1 + rng.Intn(9)
			if rng.Intn(4) > 0 && cfg[i] == 1 {
				cfg[i] = 2 + rng.Intn(6)
			}
			if deepTier && rng.Intn(5) == 0 {
				cfg[i] = 10 + rng.Intn(25)
			}
			if rng.Intn(30) == 0 {
				cfg[i] = 30 + rng.Intn(40) // windows of a month or a quarter (code that splits or caps long windows)
			}
			if rng.Intn(150) == 0 {
				cfg[i] = 250 + rng.Intn(70) // a trading year (the longest default in the library is 255)
			}
		}
		if e.ZeroAt > 0 && rng.Intn(6) == 0 {
			cfg[e.ZeroAt-1] = 0 // no displacement at all
		}
		return cfg, 1
	case x < 88 || !allowDefault:
		return nil, []int{2, 3, 4, 6, 8}[rng.Intn(5)]
	default:
		return nil, 1
	}
}

// genLen draws an input length around the warm-up w: boundaries are favoured.
func genLen(rng *rand.Rand, w int, maxLong int) int {
	if w < 0 {
		w = 0
	}
	switch rng.Intn(10) {
	case 0:
		return 0
	case 1:
		return 1
	case 2:
		return max(0, w-1)
	case 3:
		return w
	case 4:
		return w + 1
	case 5:
		return w + 2
	case 6:
		return rng.Intn(w + 2)
	default:
		hi := min(3*w+6, maxLong)
		if hi <= w {
			hi = w + 6
		}
		return rng.Intn(hi + 1)
	}
}

func sameFloats(a, b [][]float64) (bool, string) {
	if len(a) != len(b) {
		return false, fmt.Sprintf("%d outputs vs %d", len(a), len(b))
	}
	for j := range a {
		if len(a[j]) != len(b[j]) {
			return false, fmt.Sprintf("output %d: %d values vs %d", j, len(a[j]), len(b[j]))
		}
		for k := range a[j] {
			if math.Float64bits(a[j][k]) != math.Float64bits(b[j][k]) && !(math.IsNaN(a[j][k]) && math.IsNaN(b[j][k])) {
				return false, fmt.Sprintf("output %d position %d: %v vs %v", j, k, a[j][k], b[j][k])
			}
		}
	}
	return true, ""
}

func allTrue(b []bool) bool {
	for _, x := range b {
		if !x {
			return false
		}
	}
	return true
}

func equalInts(a []int) bool {
	for _, x := range a {
		if x != a[0] {
			return false
		}
	}
	return true
}

func minInts(a []int) int {
	m := a[0]
	for _, x := range a {
		m = min(m, x)
	}
	return m
}

// pipeShrinks proposes simpler variants of a pipeline case.
func pipeShrinks(c *Case) []*Case {
	var out []*Case
	add := func(f func(d *Case)) {
		d := *c
		d.Lens = append([]int(nil), c.Lens...)
		d.Cfg = append([]int(nil), c.Cfg...)
		d.Param = append([]int(nil), c.Param...)
		if len(d.Cfg) == 0 {
			d.Cfg = nil
		}
		f(&d)
		out = append(out, &d)
	}
	if c.Cap > 0 {
		add(func(d *Case) { d.Cap = 0 })
	}
	if c.Shape != 0 {
		add(func(d *Case) { d.Shape = 0 })
	}
	allPos := len(c.Lens) > 0
	for _, n := range c.Lens {
		if n == 0 {
			allPos = false
		}
	}
	if allPos {
		add(func(d *Case) {
			for i := range d.Lens {
				d.Lens[i] /= 2
			}
		})
		add(func(d *Case) {
			for i := range d.Lens {
				d.Lens[i]--
			}
		})
	}
	for i, n := range c.Lens {
		if n > 0 {
			add(func(d *Case) { d.Lens[i] = n / 2 })
			add(func(d *Case) { d.Lens[i] = n - 1 })
		}
	}
	for i, p := range c.Cfg {
		if p > 1 {
			add(func(d *Case) { d.Cfg[i] = p - 1 })
		}
	}
	for i, p := range c.Param {
		if p > 0 {
			add(func(d *Case) { d.Param[i] = p - 1 })
		}
	}
	return out
}
