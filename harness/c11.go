package harness

import (
	"bytes"
	"encoding/csv"
	"encoding/json"
	"fmt"
	"math"
	"math/rand"
	"os"
	"path/filepath"
	"reflect"
	"strconv"
	"strings"
	"time"

	"github.com/cinar/indicator/v2/helper"
	"simrt"
)

// csvRow covers every kind the CSV codec supports.
type csvRow struct {
	Name string `header:"name"`
	Flag bool
	I8   int8
	I16  int16
	I32  int32
	I64  int64 `header:"i64"`
	I    int
	U    uint
	U8   uint8
	U16  uint16
	U32  uint32
	U64  uint64
	F32  float32
	F64  float64 `header:"f 64"`
	When time.Time
	Day  time.Time     `format:"2006-01-02"`
	Dmy  time.Time     `format:"02/01/2006"`
	Ydm  time.Time     `format:"2006-02-01" header:"ydm"`
	Ymd1 time.Time     `format:"2006-1-2"`    // layouts whose text can be longer than the layout itself
	Mdy  time.Time     `format:"Jan 2, 2006"` // (two-digit days and months; a comma inside the cell)
	Seen time.Time     // no format tag although the fields before it have one: the default layout, with the time of day
	Dur  time.Duration // integer kinds whose types have a String method: the cell is the number
	Wd   time.Weekday
	Side sideT
	Tail string `header:"tail,col"`
}

type sideT int8

func (s sideT) String() string { return []string{"sell", "hold", "buy"}[(int(s)%3+3)%3] }

type jsonRow struct {
	S string    `json:"s"`
	F float64   `json:"f"`
	I int64     `json:"i"`
	B bool      `json:"b"`
	T time.Time `json:"t"`
	L []int     `json:"l"`
}

var strPool = []string{"", "a", "plain text", "with,comma", `with "quotes"`, "multi\nline", " leading", "trailing ", "ünï©ødé ✓", `""`, ",", "\n", `a,"b",c`, "tab\there", "'single'", "#hash", "null", "0", "-1.5e3", "true",
	"bell\a", "\v", "del\x7f", "nul\x00mid", "\u2028line", "tag\U000E0001", `back\slash`, "<a href='x'>&amp;</a>", "\u00a0nbsp", "#", "\ufeffbom",
	"first\rsecond", "\rlead", "a\r\rb",
	`C:\reports\raw\new\table`, `\r?\n`, `\\`, `\"`, `\,`, `\0`, "%0D%0A", "&#13;", `\u000d`, `\x0d`, `$1`, `{{.}}`, `%s %d`} // a carriage return not followed by a line feed is data (CR LF pairs are normalised by encoding/csv and stay out)
var f64Pool = []float64{0, math.Copysign(0, -1), 1, -1, 0.1, 1.0 / 3, math.MaxFloat64, -math.MaxFloat64, math.SmallestNonzeroFloat64, 5e-324, 1e21, 1e-7, 123456789.123456789, math.Inf(1), math.Inf(-1), math.Pi}
var f32Pool = []float32{0, 1, -1, 0.1, 1.0 / 3, math.MaxFloat32, math.SmallestNonzeroFloat32, 16777217, 1e-10}

// zoned re-expresses the date and time of day of t in another zone (same reading, another instant).
func zoned(t time.Time, z *time.Location) time.Time {
	return time.Date(t.Year(), t.Month(), t.Day(), t.Hour(), t.Minute(), t.Second(), t.Nanosecond(), z)
}

func genCsvRow(rng *rand.Rand) *csvRow {
	pickI := func(lo, hi int64) int64 {
		switch rng.Intn(5) {
		case 0:
			return lo
		case 1:
			return hi
		case 2:
			return 0
		}
		return lo + rng.Int63n(hi/2-lo/2)*2
	}
	r := &csvRow{
		Name: strPool[rng.Intn(len(strPool))],
		Flag: rng.Intn(2) == 0,
		I8:   int8(pickI(math.MinInt8, math.MaxInt8)),
		I16:  int16(pickI(math.MinInt16, math.MaxInt16)),
		I32:  int32(pickI(math.MinInt32, math.MaxInt32)),
		I64:  pickI(math.MinInt64, math.MaxInt64),
		I:    int(pickI(math.MinInt64, math.MaxInt64)),
		U8:   uint8(rng.Intn(256)),
		U16:  uint16(rng.Intn(65536)),
		U32:  rng.Uint32(),
		U64:  rng.Uint64(),
		U:    uint(rng.Uint64()),
		F32:  f32Pool[rng.Intn(len(f32Pool))],
		F64:  f64Pool[rng.Intn(len(f64Pool))],
		When: time.Date(1970+rng.Intn(130), time.Month(1+rng.Intn(12)), 1+rng.Intn(28), rng.Intn(24), rng.Intn(60), rng.Intn(60), 0, time.UTC),
		Day:  time.Date(2000+rng.Intn(60), time.Month(1+rng.Intn(12)), 1+rng.Intn(28), 0, 0, 0, 0, time.UTC),
		Dmy:  time.Date(1990+rng.Intn(60), time.Month(1+rng.Intn(12)), 1+rng.Intn(28), 0, 0, 0, 0, time.UTC),
		Ydm:  time.Date(1990+rng.Intn(60), time.Month(1+rng.Intn(12)), 1+rng.Intn(28), 0, 0, 0, 0, time.UTC),
		Ymd1: time.Date(1990+rng.Intn(60), time.Month(1+rng.Intn(12)), 1+rng.Intn(28), 0, 0, 0, 0, time.UTC),
		Mdy:  time.Date(1990+rng.Intn(60), time.Month(1+rng.Intn(12)), 1+rng.Intn(28), 0, 0, 0, 0, time.UTC),
		Seen: time.Date(1990+rng.Intn(60), time.Month(1+rng.Intn(12)), 1+rng.Intn(28), rng.Intn(24), rng.Intn(60), rng.Intn(60), 0, time.UTC),
		Dur:  time.Duration(rng.Int63n(1e12)) - 5e11,
		Wd:   time.Weekday(rng.Intn(7)),
		Side: sideT(rng.Intn(3) - 1),
		Tail: strPool[rng.Intn(len(strPool))],
	}
	switch rng.Intn(12) {
	case 0:
		r.Day, r.When = time.Time{}, time.Time{} // the zero time: a field nobody set
	case 1:
		r.Day = time.Date(1+rng.Intn(999), time.Month(1+rng.Intn(12)), 1+rng.Intn(28), 0, 0, 0, 0, time.UTC) // a year of fewer than four digits
		r.Dmy = time.Date(1+rng.Intn(99), time.Month(1+rng.Intn(12)), 1+rng.Intn(28), 0, 0, 0, 0, time.UTC)
	}
	if rng.Intn(6) == 0 {
		// the same dates and times of day, held in a zone other than UTC (a value that came from
		// local time): the cell shows what the value reads in its own zone
		z := time.FixedZone("", []int{9, -5, 13, -11}[rng.Intn(4)]*3600)
		r.When, r.Day, r.Dmy, r.Ydm, r.Seen = zoned(r.When, z), zoned(r.Day, z), zoned(r.Dmy, z), zoned(r.Ydm, z), zoned(r.Seen, z)
		r.Ymd1, r.Mdy = zoned(r.Ymd1, z), zoned(r.Mdy, z)
	}
	if rng.Intn(4) == 0 {
		r.U64 = math.MaxUint64
		r.U32 = math.MaxUint32
		r.U = math.MaxUint
	}
	if rng.Intn(3) == 0 {
		r.F64 = rng.NormFloat64() * math.Pow(10, float64(rng.Intn(40)-20))
		r.F32 = float32(rng.NormFloat64())
	}
	return r
}

func sameCsvRow(a, b *csvRow) (bool, string) {
	va, vb := reflect.ValueOf(*a), reflect.ValueOf(*b)
	for i := 0; i < va.NumField(); i++ {
		name := va.Type().Field(i).Name
		fa, fb := va.Field(i), vb.Field(i)
		switch fa.Kind() {
		case reflect.Float32, reflect.Float64:
			if math.Float64bits(fa.Float()) != math.Float64bits(fb.Float()) {
				return false, fmt.Sprintf("field %s: %v != %v", name, fa.Float(), fb.Float())
			}
		case reflect.Struct:
			// the layouts carry no zone: what round-trips is the date and time of day as the value
			// reads in its own zone (for UTC values that is the instant)
			ta, tb := fa.Interface().(time.Time), fb.Interface().(time.Time)
			const wall = "2006-01-02 15:04:05.999999999"
			if ta.Format(wall) != tb.Format(wall) {
				return false, fmt.Sprintf("field %s: %v != %v", name, ta, tb)
			}
		default:
			if !reflect.DeepEqual(fa.Interface(), fb.Interface()) {
				return false, fmt.Sprintf("field %s: %#v != %#v", name, fa.Interface(), fb.Interface())
			}
		}
	}
	return true, ""
}

func sameCsvRows(got, want []*csvRow) (bool, string) {
	if len(got) != len(want) {
		return false, fmt.Sprintf("%d rows read, model has %d", len(got), len(want))
	}
	for i := range got {
		if ok, why := sameCsvRow(got[i], want[i]); !ok {
			return false, fmt.Sprintf("row %d: %s", i, why)
		}
	}
	return true, ""
}

// independentCsv encodes rows with the standard library directly (not through the codec under
// test), with the header columns permuted and extra columns inserted.
func independentCsv(rows []*csvRow, perm []int, extra int) []byte {
	t := reflect.TypeOf(csvRow{})
	heads := make([]string, t.NumField())
	formats := make([]string, t.NumField())
	for i := 0; i < t.NumField(); i++ {
		f := t.Field(i)
		heads[i] = f.Name
		if h, ok := f.Tag.Lookup("header"); ok {
			heads[i] = h
		}
		formats[i] = "2006-01-02 15:04:05"
		if h, ok := f.Tag.Lookup("format"); ok {
			formats[i] = h
		}
	}
	cell := func(r *csvRow, i int) string {
		v := reflect.ValueOf(*r).Field(i)
		switch v.Kind() {
		case reflect.String:
			return v.String()
		case reflect.Bool:
			return strconv.FormatBool(v.Bool())
		case reflect.Int, reflect.Int8, reflect.Int16, reflect.Int32, reflect.Int64:
			return strconv.FormatInt(v.Int(), 10)
		case reflect.Uint, reflect.Uint8, reflect.Uint16, reflect.Uint32, reflect.Uint64:
			return strconv.FormatUint(v.Uint(), 10)
		case reflect.Float32:
			return strconv.FormatFloat(v.Float(), 'g', -1, 32)
		case reflect.Float64:
			return strconv.FormatFloat(v.Float(), 'g', -1, 64)
		default:
			return v.Interface().(time.Time).Format(formats[i])
		}
	}
	var buf bytes.Buffer
	w := csv.NewWriter(&buf)
	// extra columns stand before some of the real ones and one after all of them; their names
	// differ from every real header, some of them only in case or surrounding blanks
	exNames := []string{"extra column", "NAME", "I64", " tail,col", "flag", "F 64", "YDM"}
	line := func(get func(i int) string, ex func(k int) string) {
		var rec []string
		for k, i := range perm {
			if k < extra {
				rec = append(rec, ex(k))
			}
			rec = append(rec, get(i))
		}
		if extra > 0 {
			rec = append(rec, ex(extra))
		}
		w.Write(rec)
	}
	line(func(i int) string { return heads[i] }, func(k int) string { return exNames[(k+len(rows))%len(exNames)] })
	for _, r := range rows {
		line(func(i int) string { return cell(r, i) }, func(int) string { return "x,y" })
	}
	w.Flush()
	return buf.Bytes()
}

// C11: CSV and JSON codecs round-trip every supported value; write replaces, append appends.
type c11 struct{}

func init() { register(c11{}) }

func (c11) ID() string { return "C11" }

func (c11) Rule() string {
	return "case = (history of WriteToFile / AppendToFile / AppendOrWriteToCsvFile calls on one path with batches of drawn size incl. empty and shorter-after-longer, followed by ReadFromFile after every operation; a header-permuted document with extra columns produced by an independent encoder and read through a fragmenting reader; a ChanToJSON -> bytes -> JSONToChan round trip through a fragmenting reader; row values from edge pools for every supported kind; row-producer pacing and reader goroutines under the seeded controller); " +
		"oracle: model file = list of rows, compared bit-for-bit on floats after every operation; " +
		"a cell (operation bigram incl. the sizes' order relation, fragment class, policy) is non-trivial when the history has at least two operations on the path or the reader fragments; distinct_nontrivial counts distinct cells"
}

func (c11) Components() (real, stub []string) {
	return []string{"helper.Csv codec, helper.ChanToJSON/JSONToChan (AST-instrumented copy)", "encoding/csv, encoding/json", "the OS file system (a fresh directory per run)"},
		[]string{"row producers (tasks)", "FragReader: fragmenting io.Reader with scheduling points", "independent CSV encoder for permuted headers", "scheduler: simrt controller"}
}

func (c11) Gen(rng *rand.Rand, tier string, k int) *Case {
	c := &Case{Family: "codec", Entity: "helper.Csv"}
	nops := 1 + rng.Intn(5)
	for i := 0; i < nops; i++ {
		op := []string{"write", "write", "append", "appendorwrite", "appendorwrite"}[rng.Intn(5)]
		n := rng.Intn(6)
		if rng.Intn(5) == 0 {
			n = 0
		}
		c.Ops = append(c.Ops, OpSpec{Op: op, N: n, Seed: rng.Int63n(1 << 30)})
	}
	c.Ops = append(c.Ops, OpSpec{Op: "permuted", N: rng.Intn(5), Seed: rng.Int63n(1 << 30), From: rng.Intn(4)})
	if rng.Intn(2) == 0 {
		// the codec value that read a document in another column order writes files afterwards
		at := rng.Intn(len(c.Ops))
		last := c.Ops[len(c.Ops)-1]
		copy(c.Ops[at+1:], c.Ops[at:len(c.Ops)-1])
		c.Ops[at] = last
	}
	c.Ops = append(c.Ops, OpSpec{Op: "strrows", N: rng.Intn(6), Seed: rng.Int63n(1 << 30)})
	c.Ops = append(c.Ops, OpSpec{Op: "json", N: rng.Intn(6), Seed: rng.Int63n(1 << 30), From: rng.Intn(16)}) // From: element type
	if rng.Intn(16) == 0 {
		c.Ops[len(c.Ops)-1].N = 100 + rng.Intn(500) // a document of several buffers' length
	}
	switch rng.Intn(4) {
	case 0:
		c.Frag = nil
	case 1:
		c.Frag = []int{1}
	default:
		for i := 0; i < 1+rng.Intn(4); i++ {
			c.Frag = append(c.Frag, rng.Intn(9))
		}
		c.Frag = append(c.Frag, 1+rng.Intn(40))
	}
	c.Cap = rng.Intn(3)
	if rng.Intn(4) == 0 {
		// fault-injecting configuration (kept apart from the fault-free one): the disk is full
		// after k more bytes on the n-th open of the file, or the n-th close of a written file fails
		if rng.Intn(3) > 0 {
			c.Faults = append(c.Faults, FaultSpec{Kind: "fs-write-budget", At: rng.Intn(600), N: 1 + rng.Intn(2*nops)})
		} else {
			c.Faults = append(c.Faults, FaultSpec{Kind: "fs-close-error", N: 1 + rng.Intn(nops)})
		}
	}
	c.Policy = genPolicy(rng)
	return c
}

func (c11) Shrinks(c *Case) []*Case {
	var out []*Case
	for i := range c.Ops {
		if len(c.Ops) > 1 {
			d := *c
			d.Ops = append(append([]OpSpec{}, c.Ops[:i]...), c.Ops[i+1:]...)
			out = append(out, &d)
		}
		if c.Ops[i].N > 0 {
			d := *c
			d.Ops = append([]OpSpec{}, c.Ops...)
			d.Ops[i].N--
			out = append(out, &d)
		}
	}
	if len(c.Frag) > 0 {
		d := *c
		d.Frag = nil
		out = append(out, &d)
	}
	if c.Cap > 0 {
		d := *c
		d.Cap = 0
		out = append(out, &d)
	}
	for i, f := range c.Faults {
		if f.At > 0 {
			d := *c
			d.Faults = append([]FaultSpec{}, c.Faults...)
			d.Faults[i].At = f.At / 2
			out = append(out, &d)
		}
	}
	return out
}

func (c11) Run(c *Case, st *Stats) []Violation {
	dir := runDir()
	defer os.RemoveAll(dir)
	path := filepath.Join(dir, "rows.csv")
	var vs []Violation
	var notes []string
	add := func(entity, kind, regime, detail string) {
		vs = append(vs, Violation{Prop: "C11", Entity: entity, Kind: kind, Regime: regime, Detail: detail})
	}
	feed := func(rows []*csvRow) <-chan *csvRow {
		ch := make(chan *csvRow, c.Cap)
		simrt.GoKind("prod", func() {
			for _, r := range rows {
				prodYield()
				ch <- r
			}
			simrt.Yield(-3, "prod-close")
			close(ch)
		})
		return ch
	}
	collect := func(ch <-chan *csvRow) []*csvRow {
		var got []*csvRow
		for {
			consYield()
			r, ok := <-ch
			if !ok {
				return got
			}
			got = append(got, r)
		}
	}
	clientDone := false
	plan := fsPlan(c.Faults)
	out := simulate(SimOpts{Policy: c.Policy, Record: c.Record, MaxSteps: 2_000_000}, func(s *simrt.Sim) {
		if plan != nil {
			s.SetFaults(plan)
		}
		simrt.GoKind("client", func() {
			defer func() { clientDone = true }()
			// one history in five uses a codec for files without a header row (columns in field order)
			hasHeader := c.Seed%5 != 0
			if !hasHeader {
				st.Faults["codec-for-files-without-a-header-row"]++
			}
			codec, err := helper.NewCsv[csvRow](hasHeader)
			if err != nil {
				add("helper.Csv", "constructor-error", "-", err.Error())
				return
			}
			var model []*csvRow
			exists := false
			prev := "start"
			prevN := 0
			for i, op := range c.Ops {
				rng := rand.New(rand.NewSource(op.Seed))
				rows := make([]*csvRow, op.N)
				for k := range rows {
					rows[k] = genCsvRow(rng)
				}
				rel := "="
				if op.N < prevN {
					rel = "shorter"
				} else if op.N > prevN {
					rel = "longer"
				}
				regime := prev + ">" + op.Op
				switch op.Op {
				case "write", "append", "appendorwrite":
					var err error
					wantErr := false
					firedBefore := plan.TotalFired()
					switch op.Op {
					case "write":
						err = codec.WriteToFile(path, feed(rows))
						model = append([]*csvRow{}, rows...)
					case "append":
						wantErr = !exists
						err = codec.AppendToFile(path, feed(rows))
						if exists {
							model = append(model, rows...)
						}
					case "appendorwrite":
						err = helper.AppendOrWriteToCsvFile(path, hasHeader, feed(rows))
						model = append(model, rows...)
					}
					if fired := plan.TotalFired() - firedBefore; fired > 0 {
						// a write or close on the file failed inside this operation (disk full after k
						// bytes, failing close): the operation has to say so; afterwards the file is in
						// an unknown state and the history ends
						if err == nil {
							add("helper.Csv", "io-error-not-reported", regime, fmt.Sprintf("op %d %s returned nil although %d injected write/close faults fired (%v); the rows are not on disk", i, op.Op, fired, plan.FiredKinds()))
						} else {
							st.Probes["io-error-reported-by-operation"]++
						}
						notes = append(notes, "io fault")
						return
					}
					if wantErr != (err != nil) {
						add("helper.Csv", "unexpected-error-status", regime, fmt.Sprintf("op %d %s: err=%v, expected error=%v", i, op.Op, err, wantErr))
						return
					}
					if err != nil {
						st.Probes["append-to-missing-file-rejected"]++
						notes = append(notes, "append rejected")
						continue // the rejected call did not read its rows; the producer is left blocked by design of the API
					}
					exists = true
					ch, err := codec.ReadFromFile(path)
					if err != nil {
						add("helper.Csv", "read-error", regime, fmt.Sprintf("op %d: ReadFromFile: %v", i, err))
						return
					}
					got := collect(ch)
					if ok, why := sameCsvRows(got, model); !ok {
						add("helper.Csv", "file-differs-from-model", regime+"("+rel+")", fmt.Sprintf("after op %d of history %v: %s", i, opNames(c.Ops[:i+1]), why))
						return
					}
					st.Probes["file-compared-with-model"]++
					if prev != "start" {
						st.cell(regime, rel, fragClass(c.Frag), c.Policy.Name)
					}
					if op.Op == "write" && rel == "shorter" && prev != "start" {
						st.Probes["shorter-write-over-longer-file"]++
					}
					prev, prevN = op.Op, len(model)
				case "permuted":
					if !hasHeader {
						continue // columns are mapped by header name: nothing to permute without one
					}
					perm := rng.Perm(reflect.TypeOf(csvRow{}).NumField())
					doc := independentCsv(rows, perm, op.From)
					r := &FragReader{Data: doc, Frag: c.Frag, ErrAt: -1}
					got := collect(codec.ReadFromReader(r))
					if ok, why := sameCsvRows(got, rows); !ok {
						add("helper.Csv", "permuted-header-mismatch", "permuted", fmt.Sprintf("columns permuted %v with %d extra columns: %s", perm, op.From, why))
						return
					}
					st.Probes["permuted-header-documents-read"]++
					st.Faults["fragmented-reads"] += r.Reads
					st.cell("permuted", fragClass(c.Frag), c.Policy.Name)
					// the same codec value then reads a document that lacks some of the columns: it
					// must read it as a fresh codec does (nothing remembered from the earlier header)
					// (what the codec value does next is drawn: another document, the file, or - one
					// time in three - nothing, so that the next operation of the history finds the
					// codec as the permuted document left it)
					if op.Seed%3 == 0 {
						break
					}
					if drop := 1 + rng.Intn(3); drop < len(perm) && op.Seed%3 == 1 {
						narrow := independentCsv(rows, perm[:len(perm)-drop], 0)
						fresh, err := helper.NewCsv[csvRow](true)
						if err != nil {
							add("helper.Csv", "constructor-error", "-", err.Error())
							return
						}
						want := collect(fresh.ReadFromReader(&FragReader{Data: narrow, ErrAt: -1}))
						got2 := collect(codec.ReadFromReader(&FragReader{Data: narrow, Frag: c.Frag, ErrAt: -1}))
						if ok, why := sameCsvRows(got2, want); !ok {
							add("helper.Csv", "reused-codec-differs-from-fresh", "narrower-after-permuted", fmt.Sprintf("a document without columns %v read after one that had them: %s", perm[len(perm)-drop:], why))
							return
						}
						st.Probes["narrower-documents-read-by-the-same-codec"]++
					}
					// the codec re-derives the column indexes per read: a later file read must still work
					if exists {
						ch, err := codec.ReadFromFile(path)
						if err != nil {
							add("helper.Csv", "read-error", "after-permuted", err.Error())
							return
						}
						if ok, why := sameCsvRows(collect(ch), model); !ok {
							add("helper.Csv", "file-differs-from-model", "after-permuted", why)
							return
						}
					}
				case "strrows":
					// a row type made of strings only, half of the cells empty (a row may be all
					// empty): written in two batches to a file of its own and read back
					if plan != nil {
						continue // the fault plan counts the opens of the history's file
					}
					srows := make([]*csvStrRow, op.N)
					for k := range srows {
						cell := func() string {
							if rng.Intn(2) == 0 {
								return ""
							}
							return strPool[rng.Intn(len(strPool))]
						}
						srows[k] = &csvStrRow{A: cell(), B: cell(), C: cell()}
					}
					sHeader := op.Seed%2 == 0
					spath := filepath.Join(dir, "strings.csv")
					cut := 0
					if op.N > 0 {
						cut = rng.Intn(op.N + 1)
					}
					for _, part := range [][]*csvStrRow{srows[:cut], srows[cut:]} {
						ch := make(chan *csvStrRow, c.Cap)
						simrt.GoKind("prod", func() {
							for _, r := range part {
								prodYield()
								ch <- r
							}
							simrt.Yield(-3, "prod-close")
							close(ch)
						})
						if err := helper.AppendOrWriteToCsvFile(spath, sHeader, ch); err != nil {
							add("helper.Csv", "write-error", "strrows", err.Error())
							return
						}
					}
					back, err := helper.ReadFromCsvFile[csvStrRow](spath, sHeader)
					if err != nil {
						add("helper.Csv", "read-error", "strrows", err.Error())
						return
					}
					var sgot []*csvStrRow
					for {
						consYield()
						r, ok := <-back
						if !ok {
							break
						}
						sgot = append(sgot, r)
					}
					if len(sgot) != len(srows) {
						add("helper.Csv", "file-differs-from-model", "strrows", fmt.Sprintf("%d rows of three string cells written (header=%v), %d read back", len(srows), sHeader, len(sgot)))
						return
					}
					for k := range srows {
						if *sgot[k] != *srows[k] {
							add("helper.Csv", "file-differs-from-model", "strrows", fmt.Sprintf("row %d: wrote %q, read %q", k, *srows[k], *sgot[k]))
							return
						}
					}
					os.Remove(spath)
					st.Probes["string-only-rows-compared"]++
				case "json":
					if op.Seed%4 == 0 {
						// a stream written to a sink that fails part-way: reported, and it must leave
						// nothing behind that shows up in a later stream
						fw := &FaultWriter{Limit: int(op.Seed>>3) % 24, Err: errInjected}
						bad := make(chan jsonRow, 2)
						bad <- jsonRow{S: "stale value of a failed stream", I: 424242}
						bad <- jsonRow{S: "second stale value", I: 434343}
						close(bad)
						if err := helper.ChanToJSON(bad, fw); err == nil {
							add("helper.ChanToJSON", "io-error-not-reported", "json", "the sink failed after "+fmt.Sprint(fw.Limit)+" bytes and ChanToJSON returned nil")
							return
						}
						st.Faults["json-sink-fails-part-way"]++
					}
					if op.From > 0 {
						// scalar element types: string, float64, int64, bool, []string
						ok, why := true, ""
						switch op.From {
						case 1:
							v := make([]string, op.N)
							for k := range v {
								v[k] = strPool[rng.Intn(len(strPool))]
							}
							ok, why = jsonRoundTrip(c, st, v, func(a, b string) bool { return a == b })
						case 2:
							v := make([]float64, op.N)
							for k := range v {
								v[k] = f64Pool[rng.Intn(len(f64Pool))]
								if math.IsInf(v[k], 0) {
									v[k] = rng.NormFloat64() * math.Pow(10, float64(rng.Intn(600)-300))
								}
							}
							ok, why = jsonRoundTrip(c, st, v, func(a, b float64) bool { return math.Float64bits(a) == math.Float64bits(b) || (a == 0 && b == 0) })
						case 3:
							v := make([]int64, op.N)
							for k := range v {
								v[k] = []int64{0, -1, math.MaxInt64, math.MinInt64, 1 << 53, 1<<53 + 1, rng.Int63()}[rng.Intn(7)]
							}
							ok, why = jsonRoundTrip(c, st, v, func(a, b int64) bool { return a == b })
						case 4:
							v := make([]bool, op.N)
							for k := range v {
								v[k] = rng.Intn(2) == 0
							}
							ok, why = jsonRoundTrip(c, st, v, func(a, b bool) bool { return a == b })
						case 7:
							ok, why = jsonInts(c, st, rng, op.N, []uint8{0, 1, 2, 127, 128, 255})
						case 8:
							ok, why = jsonInts(c, st, rng, op.N, []byteT{0, 1, 2, 127, 128, 255})
						case 9:
							ok, why = jsonInts(c, st, rng, op.N, []int8{0, 1, -1, 127, -128})
						case 10:
							ok, why = jsonInts(c, st, rng, op.N, []uint64{0, 1, 1 << 53, 1<<53 + 1, math.MaxUint64, math.MaxInt64 + 1})
						case 11:
							ok, why = jsonInts(c, st, rng, op.N, []float32{0, 1, -1, 0.1, 1.0 / 3, math.MaxFloat32, math.SmallestNonzeroFloat32, 16777217})
						case 12:
							ok, why = jsonInts(c, st, rng, op.N, []uint16{0, 1, 255, 256, 65535})
						case 13: // an enumeration of integer kind with its own text form
							ok, why = jsonInts(c, st, rng, op.N, []actT{0, 1, 2, -1, 77})
						case 14: // a scaled number of integer kind written as a JSON string
							ok, why = jsonInts(c, st, rng, op.N, []centsT{0, 1, -1, 1234, -99, 100, 1 << 40})
						case 15: // a float kind with its own JSON form
							ok, why = jsonInts(c, st, rng, op.N, []pctT{0, 0.5, -0.25, 1, 12.5})
						case 6:
							v := make([]any, op.N)
							for k := range v {
								v[k] = []any{nil, true, 1.5, -0.0, 1e300, "text", []any{1.0, "x"}, map[string]any{"a": 2.0, "b": []any{}}}[rng.Intn(8)]
							}
							ok, why = jsonRoundTrip(c, st, v, func(a, b any) bool { return reflect.DeepEqual(a, b) })
						default:
							v := make([][]string, op.N)
							for k := range v {
								v[k] = []string{}
								for x := rng.Intn(3); x > 0; x-- {
									v[k] = append(v[k], strPool[rng.Intn(len(strPool))])
								}
							}
							ok, why = jsonRoundTrip(c, st, v, func(a, b []string) bool { return fmt.Sprintf("%q", a) == fmt.Sprintf("%q", b) })
						}
						if !ok {
							add("helper.JSON", "roundtrip-mismatch", "json-scalars", why)
							return
						}
						continue
					}
					vals := make([]jsonRow, op.N)
					for k := range vals {
						f := f64Pool[rng.Intn(len(f64Pool))]
						if math.IsInf(f, 0) {
							f = 0.1
						}
						vals[k] = jsonRow{S: strPool[rng.Intn(len(strPool))], F: f, I: rng.Int63() - rng.Int63(), B: rng.Intn(2) == 0,
							T: time.Date(2000+rng.Intn(50), 1, 1+rng.Intn(28), rng.Intn(24), 0, rng.Intn(60), rng.Intn(1e9), time.UTC)}
						for x := 0; x < rng.Intn(3); x++ {
							vals[k].L = append(vals[k].L, rng.Intn(100))
						}
					}
					ch := make(chan jsonRow, c.Cap)
					simrt.GoKind("prod", func() {
						for _, v := range vals {
							prodYield()
							ch <- v
						}
						simrt.Yield(-3, "prod-close")
						close(ch)
					})
					w := &FaultWriter{Limit: -1}
					if err := helper.ChanToJSON(ch, w); err != nil {
						add("helper.ChanToJSON", "write-error", "json", err.Error())
						return
					}
					r := &FragReader{Data: w.Buf, Frag: c.Frag, ErrAt: -1}
					back := helper.JSONToChan[jsonRow](r)
					var got []jsonRow
					for {
						consYield()
						v, ok := <-back
						if !ok {
							break
						}
						got = append(got, v)
					}
					if len(got) != len(vals) {
						add("helper.JSON", "roundtrip-mismatch", "json", fmt.Sprintf("%d values written, %d read back (document %q)", len(vals), len(got), trunc(string(w.Buf), 200)))
						return
					}
					for k := range vals {
						a, b := vals[k], got[k]
						if a.S != b.S || math.Float64bits(a.F) != math.Float64bits(b.F) || a.I != b.I || a.B != b.B || !a.T.Equal(b.T) || fmt.Sprint(a.L) != fmt.Sprint(b.L) {
							add("helper.JSON", "roundtrip-mismatch", "json", fmt.Sprintf("value %d: wrote %+v, read %+v", k, a, b))
							return
						}
					}
					st.Probes["json-roundtrips"]++
					st.Faults["fragmented-reads"] += r.Reads
				}
			}
		})
	})
	st.noteSim(out)
	for k, v := range plan.FiredKinds() {
		st.Faults[k] += v
	}
	if out.Err != nil {
		return nil
	}
	if len(out.Panics) > 0 {
		add("helper.Csv", "panic", "-", fmt.Sprint(out.Panics))
	}
	if !clientDone && len(vs) == 0 {
		add("helper.Csv", "deadlock", "-", "the codec client never finished; "+stuckSummary(out.Stuck))
	}
	if len(vs) == 0 && len(notes) == 0 {
		if lib := out.LibStuck(); len(lib) > 0 {
			add("helper.Csv", "leak", "-", stuckSummary(lib))
		}
	}
	return vs
}

// csvStrRow is a row type without a single non-string column.
type csvStrRow struct {
	A string
	B string `header:"Bee"`
	C string
}

type byteT uint8

// actT, centsT and pctT are element types of a numeric kind that define their own JSON form.
type actT int

func (s actT) MarshalText() ([]byte, error) {
	switch s {
	case 0:
		return []byte("hold"), nil
	case 1:
		return []byte("buy"), nil
	case -1:
		return []byte("sell"), nil
	}
	return []byte("side#" + strconv.Itoa(int(s))), nil
}

func (s *actT) UnmarshalText(b []byte) error {
	switch t := string(b); {
	case t == "hold":
		*s = 0
	case t == "buy":
		*s = 1
	case t == "sell":
		*s = -1
	case strings.HasPrefix(t, "side#"):
		n, err := strconv.Atoi(t[5:])
		*s = actT(n)
		return err
	default:
		return fmt.Errorf("no side %q", t)
	}
	return nil
}

type centsT int64

func (v centsT) MarshalJSON() ([]byte, error) {
	sign, a := "", int64(v)
	if a < 0 {
		sign, a = "-", -a
	}
	return []byte(fmt.Sprintf("\"%s%d.%02d\"", sign, a/100, a%100)), nil
}

func (v *centsT) UnmarshalJSON(b []byte) error {
	t := strings.Trim(string(b), "\"")
	neg := strings.HasPrefix(t, "-")
	t = strings.TrimPrefix(t, "-")
	whole, frac, ok := strings.Cut(t, ".")
	if !ok || len(frac) != 2 {
		return fmt.Errorf("no amount %q", string(b))
	}
	w, err := strconv.ParseInt(whole, 10, 64)
	if err != nil {
		return err
	}
	f, err := strconv.ParseInt(frac, 10, 64)
	if err != nil {
		return err
	}
	*v = centsT(w*100 + f)
	if neg {
		*v = -*v
	}
	return nil
}

type pctT float64

func (v pctT) MarshalJSON() ([]byte, error) {
	return []byte(fmt.Sprintf("{\"pct\":%s}", strconv.FormatFloat(float64(v)*100, 'g', -1, 64))), nil
}

func (v *pctT) UnmarshalJSON(b []byte) error {
	var d struct {
		Pct float64 `json:"pct"`
	}
	if err := json.Unmarshal(b, &d); err != nil {
		return err
	}
	*v = pctT(d.Pct / 100)
	return nil
}

// jsonInts round-trips n values drawn from a pool of one numeric element type.
func jsonInts[T comparable](c *Case, st *Stats, rng *rand.Rand, n int, pool []T) (bool, string) {
	v := make([]T, n)
	for k := range v {
		v[k] = pool[rng.Intn(len(pool))]
	}
	return jsonRoundTrip(c, st, v, func(a, b T) bool { return a == b })
}

func opNames(ops []OpSpec) []string {
	var r []string
	for _, o := range ops {
		r = append(r, fmt.Sprintf("%s(%d)", o.Op, o.N))
	}
	return r
}

func fragClass(f []int) string {
	switch {
	case len(f) == 0:
		return "whole"
	case len(f) == 1 && f[0] == 1:
		return "bytewise"
	}
	return "mixed"
}

func trunc(s string, n int) string {
	if len(s) > n {
		return s[:n] + "..."
	}
	return s
}

// jsonRoundTrip streams vals out with ChanToJSON and back in with JSONToChan (fragmented reads,
// paced producer) and compares element by element.
func jsonRoundTrip[T any](c *Case, st *Stats, vals []T, eq func(a, b T) bool) (bool, string) {
	ch := make(chan T, c.Cap)
	simrt.GoKind("prod", func() {
		for _, v := range vals {
			prodYield()
			ch <- v
		}
		simrt.Yield(-3, "prod-close")
		close(ch)
	})
	w := &FaultWriter{Limit: -1}
	if err := helper.ChanToJSON(ch, w); err != nil {
		return false, "ChanToJSON: " + err.Error()
	}
	r := &FragReader{Data: w.Buf, Frag: c.Frag, ErrAt: -1}
	back := helper.JSONToChan[T](r)
	var got []T
	for {
		consYield()
		v, ok := <-back
		if !ok {
			break
		}
		got = append(got, v)
	}
	if len(got) != len(vals) {
		return false, fmt.Sprintf("%T: %d values written, %d read back (document %q)", vals, len(vals), len(got), trunc(string(w.Buf), 200))
	}
	for k := range vals {
		if !eq(vals[k], got[k]) {
			return false, fmt.Sprintf("%T value %d: wrote %#v, read %#v", vals, k, vals[k], got[k])
		}
	}
	st.Probes["json-scalar-roundtrips"]++
	st.Faults["fragmented-reads"] += r.Reads
	return true, ""
}
