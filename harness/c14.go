package harness

import (
	"bytes"
	"fmt"
	"math"
	"math/rand"
	"reflect"
	"regexp"
	"strings"
	"time"
	"unsafe"

	"github.com/cinar/indicator/v2/asset"
	"github.com/cinar/indicator/v2/helper"
	"github.com/cinar/indicator/v2/strategy"
	"simrt"
)

// C14: strategy reports have one value per date in every column.
//
// The template is a lock-step, single-goroutine consumer of the date channel and of all column
// channels - a different consumer from C03's independent readers - so termination has to be
// shown again under it, and a column that is one element short or long renders without error.
type c14 struct{}

func init() { register(c14{}) }

func (c14) ID() string { return "C14" }

func (c14) Rule() string {
	return "case = (strategy: base, compound or decorated; configuration; series longer than the warm-up; input capacity; scheduling policy+seed); the report is rendered by the real template in a client task; " +
		"oracle: rendering terminates, no column read found its channel closed while date rows were produced, after the last row every column channel (reached by reflection) is closed and empty, empty census, one row per snapshot with that date, close, annotation of the normalised action and outcome of the same strategy's Compute/Outcome run separately; " +
		"a cell (strategy shape, configuration class, policy) is non-trivial when the series is longer than the warm-up and the schedule had a non-FIFO decision or buffered inputs; distinct_nontrivial counts distinct cells"
}

func (c14) Components() (real, stub []string) {
	r, s := c03{}.Components()
	return append(r, "text/template rendering helper/report.tmpl (the lock-step consumer of all column channels)"),
		append(s, "io.Writer = bytes.Buffer", "column drainers reading the unexported value channels by reflection after the last row")
}

func (c14) Gen(rng *rand.Rand, tier string, k int) *Case {
	c := genStratCase(rng, tier)
	S := reportWarmup(c)
	n := S + 1 + rng.Intn(min(S+12, 40))
	if n > 280 {
		n = 280
	}
	c.Lens[0] = n
	if rng.Intn(4) == 0 {
		c.Delay = []int{9, 1, -5, -11}[rng.Intn(4)] // zone offset in hours (field reused)
		c.Workers = []int{0, 20, 16}[rng.Intn(3)]   // hour of day (field reused)
	}
	if n >= 3 && rng.Intn(12) == 0 {
		c.Repeat = 2 + rng.Intn(n-1) // a second bar for the same day (a correction, an extra session)
	}
	if rng.Intn(12) == 0 {
		c.Shape = ShapeCloseOnly // rows with a close but without open, high and low
	}
	if S > 2 && rng.Intn(12) == 0 {
		c.Pad = 1 + rng.Intn(S/2) // position (1-based) of a snapshot with a zero close (field reused)
	}
	return c
}

func (c14) Shrinks(c *Case) []*Case { return pipeShrinks(c) }

// reportWarmup is the length a series must exceed for the report property to apply: the
// strategy's operational warm-up and every idle period declared by an indicator it holds (the
// report shifts each derived column by such an amount, which presupposes a longer series).
func reportWarmup(c *Case) int {
	S := measureWarmup(c)
	if S < 0 {
		return -1
	}
	return max(S, maxIdle(reflect.ValueOf(buildStrategy(c.spec())), 0)+1)
}

var rowRe = regexp.MustCompile(`(?s)data\.addRow\(\[(.*?)\]\);`)
var colRe = regexp.MustCompile(`(?s)data\.addColumn\(\{\s*"type": "([^"]*)",\s*"label": "([^"]*)",\s*"role": "([^"]*)",`)

type parsedReport struct {
	cols [][3]string // type, label, role
	rows [][]string  // date + one value per column
}

func parseReport(html string) parsedReport {
	var p parsedReport
	for _, m := range colRe.FindAllStringSubmatch(html, -1) {
		p.cols = append(p.cols, [3]string{m[1], m[2], m[3]})
	}
	for _, m := range rowRe.FindAllStringSubmatch(html, -1) {
		var row []string
		for _, line := range strings.Split(m[1], "\n") {
			line = strings.TrimSpace(line)
			line = strings.TrimSuffix(line, ",")
			if line != "" {
				row = append(row, line)
			}
		}
		p.rows = append(p.rows, row)
	}
	return p
}

// columnChan returns the unexported `values` channel of a report column as a usable reflect.Value.
func columnChan(col helper.ReportColumn) (reflect.Value, bool) {
	v := reflect.ValueOf(col)
	if v.Kind() != reflect.Ptr || v.Elem().Kind() != reflect.Struct {
		return reflect.Value{}, false
	}
	f := v.Elem().FieldByName("values")
	if !f.IsValid() || f.Kind() != reflect.Chan {
		return reflect.Value{}, false
	}
	return reflect.NewAt(f.Type(), unsafe.Pointer(f.UnsafeAddr())).Elem(), true
}

func (c14) Run(c *Case, st *Stats) []Violation {
	name := specName(c.spec())
	S := reportWarmup(c)
	n := c.Lens[0]
	if S < 0 || n <= S {
		st.Skipped["not-evaluated:series-not-longer-than-warm-up"]++
		return nil
	}
	start := epoch
	if c.Delay != 0 {
		// snapshot dates need not be UTC: local midnight (or evening) in a fixed zone; the row of a
		// snapshot shows the date of that snapshot as the snapshot carries it
		zone := time.FixedZone(fmt.Sprintf("UTC%+d", c.Delay), c.Delay*3600)
		start = time.Date(2020, 1, 6, (24+c.Workers)%24, 0, 0, 0, zone)
		st.Faults["non-utc-snapshot-dates"]++
	}
	snaps := genSnapshots(n, c.Shape, c.DataSeed, start)
	if c.Pad > 0 && c.Pad <= len(snaps) {
		// a day whose reported close is 0 (no closing auction), early in the warm-up where nothing
		// is traded yet: the row of that date must still show that close
		z := *snaps[c.Pad-1]
		z.Close = 0
		snaps[c.Pad-1] = &z
		st.Faults["snapshot-with-a-zero-close-in-the-warm-up"]++
	}
	if c.Repeat >= 2 && c.Repeat <= len(snaps) {
		// the row of every snapshot is still due: two rows with the same date
		z := *snaps[c.Repeat-1]
		z.Date = snaps[c.Repeat-2].Date
		snaps[c.Repeat-1] = &z
		st.Faults["two-snapshots-with-the-same-date"]++
	}
	cfgClass := "default"
	if len(c.Cfg) > 0 {
		cfgClass = fmt.Sprint(c.Cfg)
	} else if c.Scale > 1 {
		cfgClass = fmt.Sprintf("scaled/%d", c.Scale)
	}
	var buf bytes.Buffer
	var rep *helper.Report
	var writeErr error
	rendered, prodDone := false, false
	leftover := map[string]int{}
	notClosed := map[string]bool{}
	out := simulate(SimOpts{Policy: c.Policy, Record: c.Record, MaxSteps: 4_000_000}, func(s *simrt.Sim) {
		in := make(chan *asset.Snapshot, c.Cap)
		simrt.GoKind("prod", func() {
			for _, v := range snaps {
				prodYield()
				in <- v
			}
			simrt.Yield(-3, "prod-close")
			close(in)
			prodDone = true
		})
		simrt.GoKind("client", func() {
			strat := c.strat()
			rep = strat.Report(in)
			writeErr = rep.WriteToWriter(&buf)
			rendered = true
		})
		if s.Run() != nil || !rendered {
			return
		}
		// after the last row: every column channel must be closed and empty
		drain := func(label string, ch reflect.Value) {
			notClosed[label] = true
			simrt.GoKind("drain", func() {
				for {
					simrt.Yield(-7, "drain-recv")
					_, ok := ch.Recv()
					if !ok {
						notClosed[label] = false
						return
					}
					leftover[label]++
				}
			})
		}
		for i, col := range rep.Columns {
			label := fmt.Sprintf("col%d:%s", i+1, col.Name())
			if ch, ok := columnChan(col); ok {
				drain(label, ch)
			}
		}
		drain("dates", reflect.ValueOf(rep.Date))
	})
	st.noteSim(out)
	if out.NonFifo > 0 || c.Cap > 0 {
		st.cell(name, cfgClass, c.Policy.Name)
	}
	if out.Err != nil {
		return nil
	}
	desc := fmt.Sprintf("%s cfg=%v scale=%d warmup=%d n=%d cap=%d policy=%s: ", name, c.Cfg, c.Scale, S, n, c.Cap, c.Policy.Name)
	var vs []Violation
	add := func(kind, detail string) {
		vs = append(vs, Violation{Prop: "C14", Entity: name, Kind: kind, Regime: "n>warmup", Detail: desc + detail, Decisions: out.Decisions})
	}
	if len(out.Panics) > 0 {
		add("panic", fmt.Sprint(out.Panics))
		return vs
	}
	if !rendered {
		add("render-deadlock", "WriteToWriter never returned; "+stuckSummary(out.Stuck))
		return vs
	}
	if writeErr != nil {
		add("render-error", writeErr.Error())
		return vs
	}
	st.Probes["reports-rendered"]++
	if c.Cap > 0 {
		st.Probes["buffered-report-input"]++
	}
	// columns that ran out while rows were still produced
	for site, cnt := range out.ClosedRecv {
		if strings.Contains(site, "report_column.go") && cnt > 0 {
			add("column-ran-out", fmt.Sprintf("%d column reads at %s found the channel closed (rendered as zero/null)", cnt, site))
		}
	}
	var sur []string
	for label, k := range leftover {
		if k > 0 {
			name := label[strings.Index(label, ":")+1:]
			if name == "" {
				name = "annotation"
			}
			sur = append(sur, fmt.Sprintf("%s+%d", name, k))
		}
	}
	if len(sur) > 0 {
		sortStrings(sur)
		add("column-surplus["+strings.Join(sur, ",")+"]", "columns with unconsumed values after the last date row: "+strings.Join(sur, " "))
		st.Probes["surplus-found-by-reflection-drain"]++
	}
	var nc []string
	for label, b := range notClosed {
		if b {
			nc = append(nc, label)
		}
	}
	if len(nc) > 0 {
		sortStrings(nc)
		add("column-not-closed", "channels never closed: "+strings.Join(nc, " ")+"; "+stuckSummary(out.Stuck))
	} else if !prodDone {
		add("input-not-consumed", stuckSummary(out.Stuck))
	} else if lib := out.LibStuck(); len(lib) > 0 {
		add("leak", stuckSummary(lib))
	}
	// rendered content
	p := parseReport(buf.String())
	// Some reports leave the warm-up dates out (dates and all columns skipped alike), so the rows
	// are matched to snapshots by their date; they must be distinct snapshot dates in order and
	// must reach the last snapshot.
	if len(p.rows) > n || len(p.rows) == 0 {
		add("row-count", fmt.Sprintf("%d rows for %d snapshots", len(p.rows), n))
		return vs
	}
	byDate := map[string][]int{}
	for i, sn := range snaps {
		k := fmt.Sprintf("new Date(%q)", sn.Date.Format("2006-01-02"))
		byDate[k] = append(byDate[k], i)
	}
	rowSnap := make([]int, len(p.rows))
	for r := range rowSnap {
		rowSnap[r] = -1
	}
	// reference: the same strategy's Compute + Outcome, run separately
	ref := runPipe(PipeOpts{SimOpts: SimOpts{Policy: simrt.PolicySpec{Name: "fifo"}}}, [][]*asset.Snapshot{snaps},
		func(in []<-chan *asset.Snapshot) []<-chan F {
			a, o := strategy.ComputeWithOutcome(c.strat(), in[0])
			return []<-chan F{helper.Map(a, func(x strategy.Action) F { return F(x) }), o}
		})
	st.noteSim(&ref.SimOut)
	refOK := ref.Err == nil && ref.Built && allTrue(ref.Closed)
	// normalised actions of the reference run, from position 0
	var norm []strategy.Action
	if refOK {
		last := strategy.Sell
		for _, x := range ref.Outs[0] {
			a := strategy.Action(x)
			if a != strategy.Hold && a != last {
				last = a
				norm = append(norm, a)
			} else {
				norm = append(norm, strategy.Hold)
			}
		}
	}
	// the outcome as of d = what following the recommended actions up to d has made of one unit:
	// a plain trade simulation (buy with everything when not invested, sell everything when invested)
	if refOK && len(ref.Outs) == 2 && len(ref.Outs[1]) == len(ref.Outs[0]) {
		bal, shares := 1.0, 0.0
		for i, x := range ref.Outs[0] {
			if i >= len(snaps) {
				break
			}
			price := snaps[i].Close
			switch {
			case strategy.Action(x) == strategy.Buy && shares == 0 && bal > 0:
				shares, bal = bal/price, 0
			case strategy.Action(x) == strategy.Sell && shares > 0:
				bal, shares = shares*price, 0
			}
			want := bal + shares*price - 1
			if got := ref.Outs[1][i]; math.Abs(got-want) > 1e-9*(1+math.Abs(want)) {
				add("outcome-not-following-actions", fmt.Sprintf("outcome as of snapshot %d is %v, following the recommended actions gives %v", i, got, want))
				break
			}
		}
		st.Probes["outcomes-compared-with-trade-simulation"]++
	}
	prev := -1
	for r, row := range p.rows {
		if len(row) != len(p.cols)+1 {
			add("row-shape", fmt.Sprintf("row %d has %d cells for %d columns", r, len(row), len(p.cols)))
			break
		}
		// the rows are the last len(rows) snapshots (ascending, consecutive, reaching the last one):
		// row r belongs to snapshot n-len(rows)+r, whose date it must show (two snapshots may share
		// a date, so the date alone does not identify the snapshot)
		i, ok := -1, false
		for _, k := range byDate[row[0]] {
			if k == n-len(p.rows)+r {
				i, ok = k, true
			}
		}
		if !ok {
			for _, k := range byDate[row[0]] {
				if k > prev {
					i, ok = k, true // for the messages below: the first snapshot of that date not yet shown
					break
				}
			}
		}
		if ok {
			rowSnap[r] = i
		}
		if !ok || i <= prev {
			add("wrong-date", fmt.Sprintf("row %d is %s: not a snapshot date in ascending order", r, row[0]))
			break
		}
		if r == len(p.rows)-1 && i != n-1 {
			add("wrong-date", fmt.Sprintf("the last row is %s, the last snapshot is %s", row[0], snaps[n-1].Date.Format("2006-01-02")))
			break
		}
		if prev >= 0 && i != prev+1 {
			add("wrong-date", fmt.Sprintf("row %d is %s: dates are not consecutive snapshots", r, row[0]))
			break
		}
		prev = i
		wantDate := row[0]
		bad := false
		for k, col := range p.cols {
			cell := row[k+1]
			switch {
			case col[1] == "Close" && col[2] == "data":
				if want := fmt.Sprintf("%v", snaps[i].Close); cell != want {
					add("wrong-close", fmt.Sprintf("row %d (%s) shows close %s, snapshot has %s", i, wantDate, cell, want))
					bad = true
				}
			case col[2] == "annotation" && refOK && i < len(norm):
				want := "null"
				if norm[i] != strategy.Hold {
					want = fmt.Sprintf("%q", norm[i].Annotation())
				}
				if cell != want {
					add("wrong-annotation", fmt.Sprintf("row %d (%s) shows %s, the normalised action of that date is %s", i, wantDate, cell, want))
					bad = true
				}
			case col[1] == "Outcome" && refOK && i < len(ref.Outs[1]):
				if want := fmt.Sprintf("%v", ref.Outs[1][i]*100); cell != want {
					add("wrong-outcome", fmt.Sprintf("row %d (%s) shows outcome %s, Outcome of that date is %s", i, wantDate, cell, want))
					bad = true
				}
			}
		}
		if bad {
			break
		}
	}
	if refOK {
		st.Probes["rows-compared-with-compute-outcome"] += len(p.rows)
	}
	// Step response: "indicator columns are plotted against the dates they were computed for".
	// Perturb one snapshot j beyond the warm-up (prices x1.2, volume halved), render again and look
	// at every indicator column (numeric, neither Close nor Outcome): the first row in which it
	// differs from the unperturbed report must not lie before the row of snapshot j - earlier means
	// the column shows information from the future (drawn too early). A later first response is
	// counted but is no verdict (saturation and gating make it data dependent).
	if len(vs) == 0 && n > S+2 && c.DataSeed%2 == 0 {
		j := S + 1 + int(c.DataSeed/2)%(n-S-1)
		pert := append([]*asset.Snapshot{}, snaps...)
		t := *snaps[j]
		t.Open, t.High, t.Low, t.Close, t.Volume = t.Open*1.2, t.High*1.2, t.Low*1.2, t.Close*1.2, t.Volume*0.5+1
		pert[j] = &t
		var buf2 bytes.Buffer
		done2 := false
		o2 := simulate(SimOpts{Policy: simrt.PolicySpec{Name: "fifo"}, MaxSteps: 4_000_000}, func(s *simrt.Sim) {
			in := make(chan *asset.Snapshot)
			simrt.GoKind("prod", func() {
				for _, v := range pert {
					prodYield()
					in <- v
				}
				simrt.Yield(-3, "prod-close")
				close(in)
			})
			simrt.GoKind("client", func() {
				if c.strat().Report(in).WriteToWriter(&buf2) == nil {
					done2 = true
				}
			})
		})
		st.noteSim(o2)
		if done2 && o2.Err == nil {
			p2 := parseReport(buf2.String())
			if len(p2.rows) == len(p.rows) && len(p2.cols) == len(p.cols) {
				for k, col := range p.cols {
					if col[0] != "number" || col[1] == "Close" || col[1] == "Outcome" {
						continue
					}
					for r := range p.rows {
						if len(p.rows[r]) != len(p2.rows[r]) || p.rows[r][k+1] == p2.rows[r][k+1] {
							continue
						}
						d := rowSnap[r]
						if d < 0 {
							continue
						}
						if d < j {
							add("indicator-column-early["+col[1]+"]", fmt.Sprintf("column %q changes at the row of snapshot %d when only snapshot %d is perturbed", col[1], d, j))
						} else if d > j && (c.Shape == ShapeWalk || c.Shape == ShapeSpiky) && snaps[j-1].Volume > 2 && smoothColumns[col[1]] {
							// a column that is a linear (or smooth, non-saturating) function of a window of
							// prices/volumes ending at the row's snapshot moves in the very row of the
							// perturbed snapshot on a random walk
							add("indicator-column-late["+col[1]+"]", fmt.Sprintf("column %q first responds at the row of snapshot %d to a perturbation of snapshot %d", col[1], d, j))
						} else if d > j {
							// not a verdict: a saturated oscillator (RSI at 100 in a rising series), a
							// volume-gated index (NVI) or a flat window legitimately responds later
							st.Probes["step-response-later-than-perturbation(no verdict)"]++
						}
						break
					}
				}
				st.Probes["step-response-reports-compared"]++
			}
		}
	}
	return vs
}

func sortStrings(s []string) {
	for i := 1; i < len(s); i++ {
		for j := i; j > 0 && s[j] < s[j-1]; j-- {
			s[j], s[j-1] = s[j-1], s[j]
		}
	}
}

// smoothColumns are the report column labels for which a late first response is a verdict:
// moving averages, bands and oscillators that are smooth functions of the current bar. Discrete or
// saturating columns (Aroon, Stochastic RSI, RSI and MFI with tiny periods, Super Trend's
// ratcheting band, the volume-gated NVI, K/D/J) legitimately respond later at times and are not
// judged for lateness (they are still judged for responding too early).
var smoothColumns = map[string]bool{
	"MACD": true, "Signal": true, "Upper": true, "Middle": true, "Lower": true, "Fast": true, "Slow": true,
	"Medium": true, "Short": true, "Long": true, "SMA": true, "VWMA": true, "VWAP": true, "Weighted Close": true,
	"Moving Average": true, "TRIX": true, "Qstick": true, "APO": true, "AO": true, "Force Index": true, "CCI": true,
}
