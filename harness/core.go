// Package harness holds the simulated environment, the workload catalogue, the oracles and the
// driver of the deterministic-simulation checks. It is compiled (as a test binary, because
// testing/synctest needs a *testing.T) against an *instrumented scratch copy* of /repo.
package harness

import (
	"bufio"
	"fmt"
	"math"
	"os"
	"sort"
	"strings"
	"testing"
	"testing/synctest"

	"github.com/cinar/indicator/v2/helper"
	"simrt"
)

// freeRunning: the race-detector companion runs the same workloads without activating the
// controller (all simrt entry points pass through), so goroutines run under the real Go scheduler.
var freeRunning = os.Getenv("VFREE") != ""

// theT is the *testing.T of the one test function of the binary; synctest.Test needs it.
var theT *testing.T

// siteTab maps instrumentation site numbers to "file:line kind".
var siteTab = map[int]string{}

func loadSites(path string) {
	f, err := os.Open(path)
	if err != nil {
		return
	}
	defer f.Close()
	sc := bufio.NewScanner(f)
	for sc.Scan() {
		var n int
		var where, kind string
		fmt.Sscanf(sc.Text(), "%d %s %s", &n, &where, &kind)
		siteTab[n] = where
	}
}

func siteName(n int) string {
	switch {
	case n == 0:
		return "start"
	case n < 0:
		return fmt.Sprintf("harness#%d", -n)
	}
	if s, ok := siteTab[n]; ok {
		return s
	}
	return fmt.Sprintf("site#%d", n)
}

// bubble runs f inside a fresh synctest bubble. The panic that synctest raises when the bubble
// ends while goroutines are still blocked (our deadlock case, already recorded by the census) is
// swallowed; any other panic is returned.
func bubble(f func()) (err error) {
	defer func() {
		if r := recover(); r != nil {
			msg := fmt.Sprint(r)
			if strings.Contains(msg, "blocked goroutines remain") || strings.Contains(msg, "deadlock") {
				return
			}
			err = fmt.Errorf("panic in bubble: %v", r)
		}
	}()
	synctest.Test(theT, func(t *testing.T) {
		defer simrt.Deactivate()
		f()
	})
	return nil
}

// StuckInfo describes one task that can never finish.
type StuckInfo struct {
	ID    string `json:"id"`
	Kind  string `json:"kind"`
	Op    string `json:"op"`
	Where string `json:"where"`
}

func (s StuckInfo) String() string { return fmt.Sprintf("%s[%s]@%s(%s)", s.ID, s.Kind, s.Where, s.Op) }

// SimOut is what every simulated execution reports besides its typed results.
type SimOut struct {
	Stuck      []StuckInfo
	Panics     []string
	Steps      int
	Decisions  []string
	SchedHash  uint64
	NonFifo    int
	Err        error // infrastructure trouble: step budget, replay divergence, harness panic
	ClosedRecv map[string]int
	SimTime    float64 // simulated seconds elapsed
	TimerFired int
	TimerBusy  int
	LockWaits  int
	States     map[uint64]struct{}
}

// LibStuck returns the stuck tasks that belong to the library (not harness clients).
func (o *SimOut) LibStuck() []StuckInfo {
	var r []StuckInfo
	for _, s := range o.Stuck {
		if s.Kind == "lib" {
			r = append(r, s)
		}
	}
	return r
}

// StuckSummary is a short, stable description of a census: count and the distinct sites.
func stuckSummary(st []StuckInfo) string {
	set := map[string]int{}
	for _, s := range st {
		set[s.Where+"("+s.Op+")"]++
	}
	var ks []string
	for k, n := range set {
		ks = append(ks, fmt.Sprintf("%s x%d", k, n))
	}
	sort.Strings(ks)
	if len(ks) > 6 {
		ks = append(ks[:6], "...")
	}
	return fmt.Sprintf("%d blocked: %s", len(st), strings.Join(ks, ", "))
}

// SimOpts are the knobs common to all simulated executions.
type SimOpts struct {
	Policy   simrt.PolicySpec
	Record   bool
	MaxSteps int
	States   bool
}

// simulate runs body inside a bubble under a fresh Sim. body spawns root tasks with simrt.GoKind
// and drives the simulation by calling s.Run() one or more times.
func simulate(o SimOpts, body func(s *simrt.Sim)) *SimOut {
	out := &SimOut{ClosedRecv: map[string]int{}}
	err := bubble(func() {
		s := simrt.New(simrt.NewPolicy(o.Policy))
		s.Record = o.Record
		if o.MaxSteps > 0 {
			s.MaxSteps = o.MaxSteps
		}
		if o.States {
			s.StateHashes = map[uint64]struct{}{}
		}
		if !freeRunning {
			s.Activate()
		}
		body(s)
		if s.Err == nil {
			s.Run() // final drain to quiescence
		}
		out.Err = s.Err
		for _, t := range s.Stuck() {
			out.Stuck = append(out.Stuck, StuckInfo{ID: t.ID, Kind: t.Kind, Op: t.Op, Where: siteName(t.Site)})
		}
		for _, t := range s.Panics() {
			out.Panics = append(out.Panics, fmt.Sprintf("%s[%s]: %v", t.ID, t.Kind, t.Panic))
		}
		out.Steps = s.Steps
		out.Decisions = s.Decisions
		out.SchedHash = s.SchedHash
		out.NonFifo = s.NonFifo
		for k, v := range s.ClosedRecv {
			out.ClosedRecv[siteName(k)] += v
		}
		out.SimTime = s.Elapsed().Seconds()
		out.TimerFired = s.TimerFired
		out.TimerBusy = s.TimerBusy
		out.LockWaits = s.LockWaits
		out.States = s.StateHashes
	})
	if err != nil && out.Err == nil {
		out.Err = err
	}
	return out
}

// PipeResult is the outcome of running one pipeline (indicator, strategy, helper).
type PipeResult[O any] struct {
	SimOut
	Outs     [][]O
	Closed   []bool
	Fed      []int   // values each producer delivered
	ProdDone []bool  // producer finished (closed its channel)
	Avail    [][]int // step-feed mode: values received on each output after feeding position m
	Built    bool
	NbrBad   string // neighbour pipeline: what differs from its slice model ("" = nothing)
}

// PipeOpts configure one pipeline run.
type PipeOpts struct {
	SimOpts
	Cap       int  // capacity of the input channels
	StepFeed  bool // stall producers after every position and run the rest to quiescence
	EarlyFeed bool // what fits into the input channels is queued before the pipeline constructor is called ("feed, then build")
	LateFeed  bool // the producers start sending only after the pipeline constructor has returned ("build, then feed")
	Neighbour bool // another, unrelated helper pipeline runs in the same simulation; both must be undisturbed
	NoClose   bool // step-feed only: never close the inputs (used for stalled-producer observation)
}

// runPipe feeds inputs[i] into input channel i from one producer task each, builds the pipeline
// in its own task and drains every output from one independent consumer task each.
func runPipe[I, O any](o PipeOpts, inputs [][]I, build func(in []<-chan I) []<-chan O) *PipeResult[O] {
	res := &PipeResult[O]{}
	res.Fed = make([]int, len(inputs))
	res.ProdDone = make([]bool, len(inputs))
	out := simulate(o.SimOpts, func(s *simrt.Sim) {
		ins := make([]chan I, len(inputs))
		ro := make([]<-chan I, len(inputs))
		for i := range ins {
			ins[i] = make(chan I, o.Cap)
			ro[i] = ins[i]
		}
		gate := make([]chan struct{}, len(inputs))
		builtGate := make(chan struct{})
		for i, data := range inputs {
			gate[i] = make(chan struct{}, len(data)+2)
			if o.EarlyFeed && !o.StepFeed && !o.LateFeed {
				for len(data) > 0 && len(ins[i]) < cap(ins[i]) {
					ins[i] <- data[0]
					data = data[1:]
					res.Fed[i]++
				}
			}
			simrt.GoKind("prod", func() {
				if o.LateFeed {
					<-builtGate
				}
				for _, v := range data {
					if o.StepFeed {
						<-gate[i]
					}
					prodYield()
					ins[i] <- v
					res.Fed[i]++
				}
				if o.StepFeed {
					<-gate[i]
				}
				simrt.Yield(-3, "prod-close")
				close(ins[i])
				res.ProdDone[i] = true
			})
		}
		simrt.GoKind("build", func() {
			outs := build(ro)
			res.Outs = make([][]O, len(outs))
			res.Closed = make([]bool, len(outs))
			res.Built = true
			close(builtGate)
			for j, oc := range outs {
				simrt.GoKind("cons", func() {
					for {
						consYield()
						v, ok := <-oc
						if !ok {
							res.Closed[j] = true
							return
						}
						res.Outs[j] = append(res.Outs[j], v)
					}
				})
			}
		})
		if o.Neighbour {
			neighbourPipeline(&res.NbrBad)
		}
		if o.StepFeed {
			maxn := 0
			for _, d := range inputs {
				maxn = max(maxn, len(d))
			}
			if s.Run() != nil { // build, and run to quiescence with nothing fed
				return
			}
			snap := func() {
				a := make([]int, len(res.Outs))
				for j := range res.Outs {
					a[j] = len(res.Outs[j])
				}
				res.Avail = append(res.Avail, a)
			}
			snap() // Avail[0]: nothing fed
			for m := 0; m < maxn; m++ {
				for i := range gate {
					if m < len(inputs[i]) {
						gate[i] <- struct{}{}
					}
				}
				if s.Run() != nil {
					return
				}
				snap() // Avail[m+1]: positions 0..m fed
			}
			if !o.NoClose {
				for i := range gate {
					gate[i] <- struct{}{}
				}
			}
		}
	})
	res.SimOut = *out
	return res
}

// neighbourPipeline runs a small helper pipeline of its own next to the pipeline under test: other
// parameters (two digits, another factor), other data. Whatever the two share can only be
// package-level state of the library; each must come out as if it ran alone.
func neighbourPipeline(bad *string) {
	const n = 24
	in := make(chan float64)
	want := make([]float64, n)
	vals := make([]float64, n)
	for i := range vals {
		vals[i] = float64(i)*1.23456 - 7.5
		want[i] = math.Round(vals[i]*1.0001*100) / 100
		if want[i] < 0 {
			want[i] = -want[i]
		}
	}
	simrt.GoKind("prod", func() {
		for _, v := range vals {
			prodYield()
			in <- v
		}
		simrt.Yield(-3, "prod-close")
		close(in)
	})
	simrt.GoKind("build", func() {
		out := helper.Abs(helper.RoundDigits(helper.MultiplyBy(in, 1.0001), 2))
		simrt.GoKind("cons", func() {
			k := 0
			for {
				consYield()
				v, ok := <-out
				if !ok {
					break
				}
				if k < n && v != want[k] && *bad == "" {
					*bad = fmt.Sprintf("value %d of the neighbour pipeline (round to 2 digits) is %v, alone it is %v", k, v, want[k])
				}
				k++
			}
			if k != n && *bad == "" {
				*bad = fmt.Sprintf("the neighbour pipeline delivered %d of %d values", k, n)
			}
		})
	})
}
