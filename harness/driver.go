package harness

import (
	"encoding/json"
	"fmt"
	"math/rand"
	"os"
	"path/filepath"
	"runtime"
	"sort"
	"strings"
	"time"

	"simrt"
)

// Case is the serialisable description of one generated workload. One struct serves all checks;
// each check uses the fields it needs. A case plus the code under test determines the execution.
type Case struct {
	Prop     string           `json:"prop"`
	Family   string           `json:"family,omitempty"` // ind strat helper report ...
	Entity   string           `json:"entity,omitempty"`
	Cfg      []int            `json:"cfg,omitempty"`
	Scale    int              `json:"scale,omitempty"`
	Variant  int              `json:"variant,omitempty"`            // non-period parameters scaled by variantFactor[Variant]
	Procs    int              `json:"gomaxprocs,omitempty"`         // GOMAXPROCS of the process that found it (replay sets it again)
	Local    int              `json:"local_zone_hours,omitempty"`   // the process's local time zone during the case (UTC+h); 0 = UTC
	Lock     bool             `json:"lockstep_readers,omitempty"`   // C09 concurrent mode: one consumer reads the outputs of all calls in turn
	Early    bool             `json:"early_feed,omitempty"`         // pipelines: what fits into the input channels is queued before the constructor (Compute) is called
	Late     bool             `json:"late_feed,omitempty"`          // pipelines: the producers start only after the constructor (Compute) has returned
	Outc     bool             `json:"with_outcome,omitempty"`       // C03 strategies: also run through strategy.ComputeWithOutcome
	Nbr      bool             `json:"neighbour,omitempty"`          // C03: an unrelated helper pipeline runs in the same simulation
	Pub      bool             `json:"public_fields_only,omitempty"` // scaled configurations touch exported fields only (what a user can assign after construction)
	Repeat   int              `json:"repeat_date,omitempty"`        // reports: the snapshot at this position (1-based, >= 2) carries the date of the one before it
	Base     int              `json:"base_dir,omitempty"`           // index into baseNames: the directory the case works in is named like that
	Pause    int              `json:"pause,omitempty"`              // seconds of simulated time the harness's consumers let pass before their 2nd, 5th and 11th receive and its producers before their 3rd and 7th send
	Lens     []int            `json:"lens,omitempty"`
	Shape    int              `json:"shape,omitempty"`
	DataSeed int64            `json:"data_seed,omitempty"`
	Cap      int              `json:"cap,omitempty"`
	Policy   simrt.PolicySpec `json:"policy"`
	Mode     string           `json:"mode,omitempty"`
	Subs     []SubSpec        `json:"subs,omitempty"`   // compound strategies / nested decorators
	Param    []int            `json:"param,omitempty"`  // helper parameters
	Calls    []CallSpec       `json:"calls,omitempty"`  // C09: calls on one instance
	Ops      []OpSpec         `json:"ops,omitempty"`    // repository / file histories
	Faults   []FaultSpec      `json:"faults,omitempty"` // injected faults
	Workers  int              `json:"workers,omitempty"`
	Delay    int              `json:"delay,omitempty"`
	Impl     string           `json:"impl,omitempty"` // repository / report implementation
	Doc      []byte           `json:"doc,omitempty"`  // document bytes (base64 in the replay file)
	Pad      int              `json:"pad,omitempty"`  // bytes of JSON whitespace inserted after the first separator at run time
	Frag     []int            `json:"frag,omitempty"`
	Assets   []AssetSpec      `json:"assets,omitempty"`
	Names    []string         `json:"names,omitempty"`
	Perm     []int            `json:"perm,omitempty"`
	Record   bool             `json:"-"`
	Seed     int64            `json:"seed"` // the PRNG value this case was generated from
}

// SubSpec names a sub-strategy of a compound or a decorator layer.
type SubSpec struct {
	Entity string    `json:"entity"`
	Cfg    []int     `json:"cfg,omitempty"`
	Scale  int       `json:"scale,omitempty"`
	Subs   []SubSpec `json:"subs,omitempty"`
	Pct    float64   `json:"pct,omitempty"`
	Same   bool      `json:"same_instance,omitempty"` // this member is the very instance of the member before it
}

// CallSpec is one Compute/Report call on a shared instance (C09).
type CallSpec struct {
	Len      int   `json:"len"`
	Shape    int   `json:"shape"`
	DataSeed int64 `json:"data_seed"`
	Report   bool  `json:"report,omitempty"`
	Rescale  int   `json:"rescale,omitempty"` // > 1: before this call every period field of the instance is divided by it (sequential mode)
}

// OpSpec is one operation of a repository or file history.
type OpSpec struct {
	Op   string  `json:"op"`
	Name string  `json:"name,omitempty"`
	N    int     `json:"n,omitempty"`    // number of rows / snapshots
	From int     `json:"from,omitempty"` // day offset of the first appended snapshot, or of the bound
	Half bool    `json:"half,omitempty"` // bound falls between two days (half a day later)
	Zone int     `json:"zone,omitempty"` // the bound is expressed in the zone UTC+Zone hours (same instant)
	Seed int64   `json:"seed,omitempty"` // value seed
	Vals []int64 `json:"vals,omitempty"`
}

// FaultSpec is one injected fault.
type FaultSpec struct {
	Kind string `json:"kind"`
	Name string `json:"name,omitempty"`
	At   int    `json:"at,omitempty"`
	N    int    `json:"n,omitempty"`
}

// AssetSpec describes initial repository contents for one asset.
type AssetSpec struct {
	Name      string `json:"name"`
	SrcFrom   int    `json:"src_from"`
	SrcN      int    `json:"src_n"`
	TgtFrom   int    `json:"tgt_from"`
	TgtN      int    `json:"tgt_n"`
	TgtAbsent bool   `json:"tgt_absent,omitempty"`
	TgtEmpty  bool   `json:"tgt_empty_file,omitempty"` // file-system target: a zero-byte <name>.csv registers the asset
	TgtLink   bool   `json:"tgt_link,omitempty"`       // file-system target: <name>.csv is a symbolic link to a file kept elsewhere
	SrcAbsent bool   `json:"src_absent,omitempty"`
	SrcSwap   int    `json:"src_swap,omitempty"` // k > 0: source snapshots k-1 and k change places (a late correction; the last one stays last)
	Seed      int64  `json:"seed"`
}

// Violation is one failed oracle.
type Violation struct {
	Prop      string   `json:"property"`
	Entity    string   `json:"entity"`
	Kind      string   `json:"kind"`
	Regime    string   `json:"regime"`
	Detail    string   `json:"detail"`
	Decisions []string `json:"-"`
}

// Key identifies what fails, independent of seeds and schedules.
func (v Violation) Key() string { return v.Prop + "|" + v.Entity + "|" + v.Kind + "|" + v.Regime }

// Check is one property check.
type Check interface {
	ID() string
	Gen(rng *rand.Rand, tier string, k int) *Case
	Run(c *Case, st *Stats) []Violation
	Shrinks(c *Case) []*Case
	Rule() string
	Components() (real, stub []string)
}

var checks = map[string]Check{}

func register(c Check) { checks[c.ID()] = c }

// Stats are the measurements of one worker.
type Stats struct {
	Prop        string              `json:"property_id"`
	Tier        string              `json:"tier"`
	Seed        int64               `json:"seed"`
	Worker      int                 `json:"worker"`
	Evaluations int                 `json:"evaluations"`
	Sims        int                 `json:"sims"`
	Steps       int64               `json:"steps"`
	SimSeconds  float64             `json:"sim_seconds"`
	Faults      map[string]int      `json:"faults"`
	Probes      map[string]int      `json:"probes"`
	Skipped     map[string]int      `json:"skipped"`
	Cells       map[string]struct{} `json:"-"`
	CellList    []string            `json:"cells"`
	Scheds      map[uint64]struct{} `json:"-"`
	SchedList   []uint64            `json:"scheds"`
	States      map[uint64]struct{} `json:"-"`
	StateList   []uint64            `json:"states"`
	Samples     []json.RawMessage   `json:"samples"`
	KnownHits   map[string]string   `json:"known_hits"`
	Violations  []ViolationReport   `json:"violations"`
	Infra       []string            `json:"infra"`
	WallS       float64             `json:"wall_s"`
	NonFifo     int64               `json:"nonfifo_decisions"`
	Entities    map[string]int      `json:"entities"`
	digest      uint64
	Digests     []string `json:"digests,omitempty"`
}

// ViolationReport is a violation with its replay file.
type ViolationReport struct {
	Violation
	Replay string `json:"replay"`
	Seed   int64  `json:"seed"`
}

func newStats() *Stats {
	return &Stats{Faults: map[string]int{}, Probes: map[string]int{}, Skipped: map[string]int{},
		Cells: map[string]struct{}{}, Scheds: map[uint64]struct{}{}, States: map[uint64]struct{}{},
		KnownHits: map[string]string{}, Entities: map[string]int{}}
}

const setCap = 400000

// noteSim accumulates the measurements of one simulated execution.
func (st *Stats) noteSim(o *SimOut) {
	st.digest = splitmix(st.digest ^ o.SchedHash ^ uint64(o.Steps)<<32 ^ uint64(len(o.Stuck))<<20 ^ uint64(o.NonFifo))
	st.Sims++
	st.Steps += int64(o.Steps)
	st.SimSeconds += o.SimTime
	st.NonFifo += int64(o.NonFifo)
	if len(st.Scheds) < setCap {
		st.Scheds[o.SchedHash] = struct{}{}
	}
	for h := range o.States {
		if len(st.States) < setCap {
			st.States[h] = struct{}{}
		}
	}
	if o.TimerFired > 0 {
		st.Faults["timer-fired"] += o.TimerFired
	}
	if o.TimerBusy > 0 {
		st.Faults["timer-fired-while-busy"] += o.TimerBusy
	}
	if o.LockWaits > 0 {
		st.Probes["lock-waits"] += o.LockWaits
	}
	if o.Err != nil {
		st.Infra = append(st.Infra, o.Err.Error())
	}
}

func (st *Stats) cell(parts ...string) { st.Cells[strings.Join(parts, "|")] = struct{}{} }

// KnownFinding is one entry of /verif/known_findings.json.
type KnownFinding struct {
	Status string `json:"status"` // "known" or "fixed"
	Prop   string `json:"property"`
	Entity string `json:"entity"`
	Kind   string `json:"kind"`
	Regime string `json:"regime"`
	What   string `json:"what"`
	Commit string `json:"commit,omitempty"`
}

// Known is the list of recorded findings; entity, kind and regime may contain '*' wildcards.
type Known []KnownFinding

func loadKnown(path string) Known {
	b, err := os.ReadFile(path)
	if err != nil {
		return nil
	}
	var doc struct {
		Findings []KnownFinding `json:"findings"`
	}
	if err := json.Unmarshal(b, &doc); err != nil {
		fmt.Fprintf(os.Stderr, "known findings file unreadable: %v\n", err)
		os.Exit(2)
	}
	var k Known
	for _, f := range doc.Findings {
		if f.Status == "known" {
			k = append(k, f)
		}
	}
	return k
}

// wild reports whether s matches pattern p, where '*' matches any (possibly empty) substring.
func wild(p, s string) bool {
	if p == s {
		return true
	}
	parts := strings.Split(p, "*")
	if len(parts) == 1 {
		return false
	}
	if !strings.HasPrefix(s, parts[0]) {
		return false
	}
	s = s[len(parts[0]):]
	for i := 1; i < len(parts)-1; i++ {
		j := strings.Index(s, parts[i])
		if j < 0 {
			return false
		}
		s = s[j+len(parts[i]):]
	}
	return strings.HasSuffix(s, parts[len(parts)-1])
}

// Match returns the recorded finding that covers v, if any.
func (k Known) Match(v Violation) (KnownFinding, bool) {
	for _, f := range k {
		if f.Prop == v.Prop && wild(f.Entity, v.Entity) && wild(f.Kind, v.Kind) && wild(f.Regime, v.Regime) {
			return f, true
		}
	}
	return KnownFinding{}, false
}

// ID is the stable identification printed on KNOWN-FINDING lines.
func (f KnownFinding) ID() string { return f.Prop + "|" + f.Entity + "|" + f.Kind + "|" + f.Regime }

func splitmix(x uint64) uint64 {
	x += 0x9e3779b97f4a7c15
	x = (x ^ (x >> 30)) * 0xbf58476d1ce4e5b9
	x = (x ^ (x >> 27)) * 0x94d049bb133111eb
	return x ^ (x >> 31)
}

// ReplayFile is what a VIOLATION line points to.
type ReplayFile struct {
	Violation Violation `json:"violation"`
	Case      *Case     `json:"case"`
	Original  *Case     `json:"original_case,omitempty"`
	Note      string    `json:"note"`
	History   []*Case   `json:"history,omitempty"`         // C09 process-history part: calls that ran earlier in the process
	ProcsPair []int     `json:"gomaxprocs_pair,omitempty"` // C03 OS-threads part: the two GOMAXPROCS values that disagree
}

var raceMode = os.Getenv("VRACE") != ""

// digestMode: determinism self-test - record one digest per case (decision lists, step counts,
// census sizes, violation texts) so that repeated runs can be diffed.
var digestMode = os.Getenv("VDIGEST") != ""

// workerMain runs one worker: generates cases from its seed range until the time budget is used.
func workerMain() int {
	prop := os.Getenv("VCHECK")
	tier := envOr("VERIF_TIER", "quick")
	base := envInt("VERIF_SEED", 1)
	worker := envInt("VWORKER", 0)
	round := envInt("VROUND", 0)
	budget := time.Duration(envInt("VBUDGET_S", 20)) * time.Second
	outPath := os.Getenv("VOUT")
	replayDir := envOr("VREPLAYDIR", "/verif/out/replays")
	maxCases := envInt("VMAXCASES", 1<<40)
	ck := checks[prop]
	if ck == nil {
		fmt.Fprintf(os.Stderr, "unknown check %q\n", prop)
		return 2
	}
	known := loadKnown(envOr("VKNOWN", "/verif/known_findings.json"))
	st := newStats()
	st.Prop, st.Tier, st.Seed, st.Worker = prop, tier, int64(base), worker
	start := time.Now()
	novel := map[string]bool{}
	for k := 0; k < maxCases && time.Since(start) < budget; k++ {
		seed := int64(splitmix(uint64(base)*1000003+uint64(worker)*7919+uint64(round)*104729+uint64(k)<<20) >> 1)
		rng := rand.New(rand.NewSource(seed))
		c := ck.Gen(rng, tier, k+worker*1000003+round*7)
		c.Prop = prop
		c.Seed = seed
		c.Procs = runtime.GOMAXPROCS(0)
		if localZoned[prop] && !freeRunning && rng.Intn(8) == 0 {
			c.Local = []int{-8, -5, 9, 13}[rng.Intn(4)] // the machine is not set to UTC; the data still is
		}
		if pipeBased[prop] && rng.Intn(4) == 0 {
			c.Pub = true
		}
		if pipeBased[prop] && prop != "C09" && prop != "C14" && rng.Intn(6) == 0 {
			c.Late = true // build, then feed
		} else if pipeBased[prop] && prop != "C09" && prop != "C14" && rng.Intn(6) == 0 {
			c.Early = true // feed, then build
		}
		if prop == "C03" && rng.Intn(8) == 0 {
			c.Nbr = true
		}
		if prop == "C03" && c.Family == "strat" && rng.Intn(4) == 0 {
			c.Outc = true
		}
		if fsBased[prop] && rng.Intn(8) == 0 {
			c.Base = 1 + rng.Intn(len(baseNames)-1) // a directory whose name is not made of letters and digits only
		}
		if pausable[prop] && rng.Intn(12) == 0 {
			c.Pause = []int{7, 61, 3600}[rng.Intn(3)] // a slow consumer: nothing in the library may depend on how soon a value is taken
		}
		if os.Getenv("VDEBUG") != "" {
			b, _ := json.Marshal(c)
			fmt.Fprintf(os.Stderr, "case %d: %s\n", k, b)
		}
		if raceMode {
			// marker for the race-report parser: reports that follow belong to this case
			b, _ := json.Marshal(c)
			fmt.Fprintf(os.Stderr, "\nRACECASE %s\n", b)
		}
		st.Evaluations++
		st.Entities[c.Entity]++
		st.digest = uint64(seed)
		vs := runCase(ck, c, st)
		if digestMode {
			for _, v := range vs {
				st.digest = splitmix(st.digest ^ hashString(v.Key()+v.Detail))
			}
			st.Digests = append(st.Digests, fmt.Sprintf("%d %016x", k, st.digest))
			vs = nil // the self-test only compares executions
		}
		if len(st.Samples) < 3 || (len(st.Samples) < 6 && rng.Intn(50) == 0) {
			b, _ := json.Marshal(c)
			st.Samples = append(st.Samples, b)
		}
		for _, v := range vs {
			if kf, ok := known.Match(v); ok {
				if _, seen := st.KnownHits[kf.ID()]; !seen {
					st.KnownHits[kf.ID()] = kf.What + " [e.g. " + v.Detail + "]"
				}
				continue
			}
			if novel[v.Key()] {
				continue
			}
			novel[v.Key()] = true
			rep := reportViolation(ck, c, v, replayDir, st)
			st.Violations = append(st.Violations, rep)
		}
		if len(st.Violations) >= 3 {
			break
		}
		if runtime.NumGoroutine() > 60000 {
			break // leaked goroutines of recorded deadlocks pile up: let the launcher start a fresh process
		}
	}
	st.WallS = time.Since(start).Seconds()
	for k := range st.Cells {
		st.CellList = append(st.CellList, k)
	}
	sort.Strings(st.CellList)
	for k := range st.Scheds {
		st.SchedList = append(st.SchedList, k)
	}
	for k := range st.States {
		st.StateList = append(st.StateList, k)
	}
	b, _ := json.Marshal(st)
	if outPath != "" {
		if err := os.WriteFile(outPath, b, 0o644); err != nil {
			fmt.Fprintln(os.Stderr, err)
			return 2
		}
	}
	return 0
}

// reportViolation minimises the case and writes the replay file.
func reportViolation(ck Check, c *Case, v Violation, dir string, st *Stats) ViolationReport {
	orig := *c
	scratch := newStats()
	deadline := time.Now().Add(20 * time.Second)
	same := func(cand *Case) (Violation, bool) {
		for _, w := range runCase(ck, cand, scratch) {
			if w.Key() == v.Key() {
				return w, true
			}
		}
		return Violation{}, false
	}
	cur := c
	curV := v
	// workload shrinking: greedy descent over the candidates the check proposes
	for improved := true; improved && time.Now().Before(deadline); {
		improved = false
		for _, cand := range ck.Shrinks(cur) {
			if time.Now().After(deadline) {
				break
			}
			if w, ok := same(cand); ok {
				cur, curV, improved = cand, w, true
				break
			}
		}
	}
	if cur.Local != 0 {
		cand := *cur
		cand.Local = 0
		if w, ok := same(&cand); ok {
			cur, curV = &cand, w
		}
	}
	if cur.Late {
		cand := *cur
		cand.Late = false
		if w, ok := same(&cand); ok {
			cur, curV = &cand, w
		}
	}
	if cur.Early {
		cand := *cur
		cand.Early = false
		if w, ok := same(&cand); ok {
			cur, curV = &cand, w
		}
	}
	if cur.Nbr {
		cand := *cur
		cand.Nbr = false
		if w, ok := same(&cand); ok {
			cur, curV = &cand, w
		}
	}
	if cur.Pub {
		cand := *cur
		cand.Pub = false
		if w, ok := same(&cand); ok {
			cur, curV = &cand, w
		}
	}
	if cur.Base != 0 {
		cand := *cur
		cand.Base = 0
		if w, ok := same(&cand); ok {
			cur, curV = &cand, w
		}
	}
	if cur.Pause > 0 {
		cand := *cur
		cand.Pause = 0
		if w, ok := same(&cand); ok {
			cur, curV = &cand, w
		}
	}
	// schedule shrinking: is the canonical schedule enough?
	if cur.Policy.Name != "fifo" && cur.Policy.Name != "" {
		cand := *cur
		cand.Policy = simrt.PolicySpec{Name: "fifo"}
		if w, ok := same(&cand); ok {
			cur, curV = &cand, w
		} else {
			// keep the shortest forced prefix of the recorded decisions, canonical afterwards
			rec := *cur
			rec.Record = true
			if w, ok := same(&rec); ok && len(w.Decisions) > 0 {
				d := w.Decisions
				lo, hi := 0, len(d)
				for lo < hi && time.Now().Before(deadline) {
					mid := (lo + hi) / 2
					cand := *cur
					cand.Policy = simrt.PolicySpec{Name: "replay", Forced: d[:mid], Then: "fifo"}
					if _, ok := same(&cand); ok {
						hi = mid
					} else {
						lo = mid + 1
					}
				}
				cand := *cur
				cand.Policy = simrt.PolicySpec{Name: "replay", Forced: d[:hi], Then: "fifo"}
				if w2, ok := same(&cand); ok {
					// blank out forced decisions that are not needed (one pass)
					f := append([]string(nil), d[:hi]...)
					for i := len(f) - 1; i >= 0 && time.Now().Before(deadline) && len(f) <= 400; i-- {
						old := f[i]
						f[i] = ""
						c2 := *cur
						c2.Policy = simrt.PolicySpec{Name: "replay", Forced: append([]string(nil), f...), Then: "fifo"}
						if _, ok := same(&c2); !ok {
							f[i] = old
						}
					}
					c3 := *cur
					c3.Policy = simrt.PolicySpec{Name: "replay", Forced: f, Then: "fifo"}
					if w3, ok := same(&c3); ok {
						cur, curV = &c3, w3
					} else {
						cur, curV = &cand, w2
					}
				}
			}
		}
	}
	os.MkdirAll(dir, 0o755)
	name := fmt.Sprintf("%s-%s-%d.json", v.Prop, sanitize(v.Entity+"-"+v.Kind), c.Seed)
	path := filepath.Join(dir, name)
	rf := ReplayFile{Violation: curV, Case: cur, Original: &orig,
		Note: "replay: /verif/check " + v.Prop + " replay " + path + " (rebuilds from /repo, re-runs this case, expects the same violation key)"}
	b, _ := json.MarshalIndent(rf, "", " ")
	os.WriteFile(path, b, 0o644)
	return ViolationReport{Violation: curV, Replay: path, Seed: c.Seed}
}

func sanitize(s string) string {
	r := []rune(s)
	for i, c := range r {
		if !(c >= 'a' && c <= 'z' || c >= 'A' && c <= 'Z' || c >= '0' && c <= '9' || c == '-' || c == '.') {
			r[i] = '_'
		}
	}
	if len(r) > 60 {
		r = r[:60]
	}
	return string(r)
}

// replayMain re-runs the case of a replay file; exit 1 + VIOLATION line if it reproduces.
func replayMain() int {
	path := os.Getenv("VREPLAY")
	b, err := os.ReadFile(path)
	if err != nil {
		fmt.Fprintln(os.Stderr, err)
		return 2
	}
	var rf ReplayFile
	if err := json.Unmarshal(b, &rf); err != nil {
		fmt.Fprintln(os.Stderr, err)
		return 2
	}
	ck := checks[rf.Case.Prop]
	if ck == nil {
		fmt.Fprintf(os.Stderr, "unknown check %q\n", rf.Case.Prop)
		return 2
	}
	if freeRunning {
		return raceReplayMain(&rf)
	}
	if len(rf.History) > 0 {
		return historyReplayMain(&rf, path)
	}
	if len(rf.ProcsPair) == 2 {
		return procsReplayMain(&rf, path)
	}
	if rf.Case.Procs > 0 {
		runtime.GOMAXPROCS(rf.Case.Procs)
	}
	st := newStats()
	vs := runCase(ck, rf.Case, st)
	for _, v := range vs {
		if v.Key() == rf.Violation.Key() {
			fmt.Printf("REPRODUCED %s: %s\n", v.Key(), v.Detail)
			fmt.Printf("VIOLATION property=%s replay=%s\n", v.Prop, path)
			return 1
		}
	}
	for _, e := range st.Infra {
		fmt.Printf("infrastructure: %s\n", e)
	}
	fmt.Printf("NOT REPRODUCED %s (%d other violations)\n", rf.Violation.Key(), len(vs))
	for _, v := range vs {
		fmt.Printf("  other: %s: %s\n", v.Key(), v.Detail)
	}
	return 0
}

func envOr(k, d string) string {
	if v := os.Getenv(k); v != "" {
		return v
	}
	return d
}

func envInt(k string, d int) int {
	if v := os.Getenv(k); v != "" {
		var n int
		if _, err := fmt.Sscanf(v, "%d", &n); err == nil {
			return n
		}
	}
	return d
}

// pausable: the checks whose consumers may be slow on the simulated clock (C12 and C13 have
// oracles stated in simulated time and dates).
// localZoned: the checks whose cases may run with a local time zone other than UTC (dates written
// to and read from files and databases are whole UTC days; nothing may reinterpret them locally).
var localZoned = map[string]bool{"C10": true, "C11": true, "C12": true}

// pipeBased: the checks over indicator and strategy pipelines (scaled configurations).
var pipeBased = map[string]bool{"C02": true, "C03": true, "C04": true, "C05": true, "C09": true, "C14": true}

// fsBased: the checks whose cases work in a directory of their own; its name is part of the case.
var fsBased = map[string]bool{"C10": true, "C11": true, "C12": true, "C13": true, "C19": true}

// baseNames: directory names (below the per-run scratch directory) that are legal everywhere the
// library is deployed and are not made of letters and digits only. Index 0 = the plain name.
var baseNames = []string{"", "data[2024]", "[backup] markets/daily", "with space/and more", "star*dir", "q?mark", "ünï dir", "a.csv", "x{y}", "per%cent", "tilde~", "-dash", `back\slash`, "dot.dir/.hidden", "semi;colon&amp", "quote'dir"}

var (
	curBase  string
	runRoots []string
)

var pausable = map[string]bool{"C02": true, "C03": true, "C04": true, "C05": true, "C09": true, "C10": true, "C11": true, "C14": true, "C16": true, "C19": true}

var (
	consPause time.Duration
)

// runCase runs one case with its consumer pacing installed.
func runCase(ck Check, c *Case, st *Stats) []Violation {
	if c.Local != 0 && !freeRunning {
		old := time.Local
		time.Local = time.FixedZone(fmt.Sprintf("UTC%+d", c.Local), c.Local*3600)
		defer func() { time.Local = old }()
		st.Faults["process-local-zone-not-UTC"]++
	}
	scalePublicOnly = c.Pub
	defer func() { scalePublicOnly = false }()
	if c.Pub {
		st.Faults["periods-assigned-through-exported-fields-only"]++
	}
	if c.Late {
		st.Faults["producers-started-after-the-pipeline-was-built"]++
	}
	if c.Early && c.Cap > 0 {
		st.Faults["inputs-queued-before-the-pipeline-was-built"]++
	}
	if c.Nbr {
		st.Faults["unrelated-pipeline-running-alongside"]++
	}
	if c.Base > 0 && c.Base < len(baseNames) {
		curBase = baseNames[c.Base]
		st.Faults["directory-name-with-punctuation"]++
	}
	defer func() {
		curBase = ""
		for _, d := range runRoots {
			os.RemoveAll(d)
		}
		runRoots = runRoots[:0]
	}()
	consPause = time.Duration(c.Pause) * time.Second
	defer func() { consPause = 0 }()
	if c.Pause > 0 {
		st.Faults["slow-consumer-and-producer(simulated-seconds-between-values)"]++
	}
	return ck.Run(c, st)
}

// consYield is the scheduling point before a consumer's receive; a slow consumer lets simulated
// time pass first (library timers that fall due fire meanwhile).
func consYield() {
	if consPause > 0 {
		switch simrt.TaskCount(0) {
		case 2, 5, 11:
			simrt.Sleep(-30, consPause)
		}
	}
	simrt.Yield(-1, "cons-recv")
}

// prodYield is the scheduling point before a producer's send; in the slow-pacing cases the
// producer lets simulated time pass before its 3rd and 7th value.
func prodYield() {
	if consPause > 0 {
		switch simrt.TaskCount(1) {
		case 3, 7:
			simrt.Sleep(-31, consPause)
		}
	}
	simrt.Yield(-2, "prod-send")
}
