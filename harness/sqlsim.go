package harness

import (
	"database/sql"
	"database/sql/driver"
	"errors"
	"fmt"
	"io"
	"sort"
	"sync"
	"time"
)

// simsql is an in-memory database/sql driver that understands exactly the six statements of
// simDialect. It is a stub of "a conforming database": rows of one table (name, date, open,
// high, low, close, volume); GETSINCE returns the rows of an asset dated on or after the bound
// in insertion order; LASTDATE returns the date of the asset's last inserted row (no row if none).
// The code under test is the real SQLRepository and the real database/sql.

type simDialect struct{}

func (simDialect) CreateTable() string { return "CREATE" }
func (simDialect) DropTable() string   { return "DROP" }
func (simDialect) Assets() string      { return "ASSETS" }
func (simDialect) GetSince() string    { return "GETSINCE" }
func (simDialect) LastDate() string    { return "LASTDATE" }
func (simDialect) Append() string      { return "APPEND" }

type sqlRow struct {
	name string
	date time.Time
	v    [5]float64
	seq  int
}

type simDB struct {
	mu       sync.Mutex
	rows     []sqlRow
	created  bool
	seq      int
	execs    int
	queries  int
	failExec map[int]bool // fail the k-th APPEND exec
	failQry  map[int]bool // fail the k-th query
	Fired    int
}

var (
	simDBs   = map[string]*simDB{}
	simDBsMu sync.Mutex
)

type simDriver struct{}

func init() { sql.Register("simsql", simDriver{}) }

func (simDriver) Open(name string) (driver.Conn, error) {
	simDBsMu.Lock()
	db := simDBs[name]
	simDBsMu.Unlock()
	if db == nil {
		return nil, errors.New("simsql: unknown database " + name)
	}
	return &simConn{db: db}, nil
}

type simConn struct {
	db      *simDB
	inTx    bool
	pending []sqlRow // rows inserted in the open transaction (visible to others at commit)
}

// simTx: transactions of the simulated database (read committed: pending inserts become visible
// to other connections at commit, a rollback discards them).
type simTx struct{ c *simConn }

func (t simTx) Commit() error {
	t.c.db.mu.Lock()
	t.c.db.rows = append(t.c.db.rows, t.c.pending...)
	t.c.db.mu.Unlock()
	t.c.pending, t.c.inTx = nil, false
	return nil
}

func (t simTx) Rollback() error {
	t.c.pending, t.c.inTx = nil, false
	return nil
}

func (c *simConn) Prepare(q string) (driver.Stmt, error) {
	switch q {
	case "CREATE", "DROP", "ASSETS", "GETSINCE", "LASTDATE", "APPEND":
		return &simStmt{c: c, q: q}, nil
	}
	return nil, fmt.Errorf("simsql: syntax error near %q", q)
}
func (c *simConn) Close() error { return nil }
func (c *simConn) Begin() (driver.Tx, error) {
	if c.inTx {
		return nil, errors.New("simsql: transaction already open on this connection")
	}
	c.inTx = true
	return simTx{c}, nil
}

type simStmt struct {
	c *simConn
	q string
}

func (s *simStmt) Close() error { return nil }
func (s *simStmt) NumInput() int {
	switch s.q {
	case "GETSINCE":
		return 2
	case "LASTDATE":
		return 1
	case "APPEND":
		return 7
	}
	return 0
}

func (s *simStmt) Exec(args []driver.Value) (driver.Result, error) {
	db := s.c.db
	db.mu.Lock()
	defer db.mu.Unlock()
	switch s.q {
	case "CREATE":
		db.created = true
		return driver.RowsAffected(0), nil
	case "DROP":
		db.rows, db.created = nil, false
		return driver.RowsAffected(0), nil
	case "APPEND":
		db.execs++
		if db.failExec[db.execs] {
			db.Fired++
			return nil, errors.New("simsql: injected exec failure")
		}
		r := sqlRow{name: args[0].(string), date: args[1].(time.Time), seq: db.seq}
		db.seq++
		for i := 0; i < 5; i++ {
			switch x := args[2+i].(type) { // a numeric column stores integers and floats alike
			case float64:
				r.v[i] = x
			case int64:
				r.v[i] = float64(x)
			default:
				return nil, fmt.Errorf("simsql: column %d: unsupported value %T", 2+i, x)
			}
		}
		if s.c.inTx {
			s.c.pending = append(s.c.pending, r)
		} else {
			db.rows = append(db.rows, r)
		}
		return driver.RowsAffected(1), nil
	}
	return nil, fmt.Errorf("simsql: %s is not an exec statement", s.q)
}

func (s *simStmt) Query(args []driver.Value) (driver.Rows, error) {
	db := s.c.db
	db.mu.Lock()
	defer db.mu.Unlock()
	db.queries++
	if db.failQry[db.queries] {
		db.Fired++
		return nil, errors.New("simsql: injected query failure")
	}
	switch s.q {
	case "ASSETS":
		set := map[string]bool{}
		for _, r := range db.rows {
			set[r.name] = true
		}
		var names []string
		for n := range set {
			names = append(names, n)
		}
		sort.Strings(names)
		out := &simRows{cols: []string{"name"}}
		for _, n := range names {
			out.data = append(out.data, []driver.Value{n})
		}
		return out, nil
	case "GETSINCE", "LASTDATE":
		name := args[0].(string)
		var sel []sqlRow
		for _, r := range db.rows {
			if r.name != name {
				continue
			}
			if s.q == "GETSINCE" && r.date.Before(args[1].(time.Time)) {
				continue
			}
			sel = append(sel, r)
		}
		// rows come back in insertion order and LASTDATE is the date of the asset's last inserted
		// row: the property specifies the repository as "the ordered list of snapshots appended so
		// far", which a conforming database has to reproduce also for histories that are not in
		// date order
		if s.q == "LASTDATE" {
			out := &simRows{cols: []string{"date"}}
			if len(sel) > 0 {
				out.data = append(out.data, []driver.Value{sel[len(sel)-1].date})
			}
			return out, nil
		}
		out := &simRows{cols: []string{"date", "open", "high", "low", "close", "volume"}}
		for _, r := range sel {
			out.data = append(out.data, []driver.Value{r.date, r.v[0], r.v[1], r.v[2], r.v[3], r.v[4]})
		}
		return out, nil
	}
	return nil, fmt.Errorf("simsql: %s is not a query", s.q)
}

type simRows struct {
	cols []string
	data [][]driver.Value
	pos  int
}

func (r *simRows) Columns() []string { return r.cols }
func (r *simRows) Close() error      { return nil }
func (r *simRows) Next(dest []driver.Value) error {
	if r.pos >= len(r.data) {
		return io.EOF
	}
	copy(dest, r.data[r.pos])
	r.pos++
	return nil
}

func (db *simDB) fired() int {
	db.mu.Lock()
	defer db.mu.Unlock()
	return db.Fired
}
