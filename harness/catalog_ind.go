package harness

import (
	"fmt"
	"reflect"
	"sort"
	"strings"
	"unsafe"

	"github.com/cinar/indicator/v2/momentum"
	"github.com/cinar/indicator/v2/trend"
	"github.com/cinar/indicator/v2/volatility"
	"github.com/cinar/indicator/v2/volume"
)

// F is the element type all indicators are instantiated with.
type F = float64

// IndEntity describes one indicator type of the catalogue.
type IndEntity struct {
	Name    string
	Sig     string             // input columns in parameter order: o h l c v, x = 1,2,3...
	NOut    int                // number of output channels
	NCfg    int                // number of period parameters Make understands
	Make    func(c []int) any  // c == nil: the default constructor
	Implied func(inst any) int // warm-up implied by the formula, for the types without IdlePeriod()
	NoScale bool               // configuration is derived by the constructor; do not scale fields
	Unset   bool               // an instance without configuration (see UnsetIndicators)
	ZeroAt  int                // k > 0: configuration value k-1 is a displacement, not a window, and may be 0
}

func sorted(c []int) []int {
	d := append([]int(nil), c...)
	sort.Ints(d)
	return d
}

// Indicators is the catalogue of all 61 indicator types (62 entries: Envelope has two bases).
var Indicators = []*IndEntity{
	// ---- trend
	{Name: "trend.Apo", Sig: "c", NOut: 1, NCfg: 2,
		Make: func(c []int) any {
			a := trend.NewApo[F]()
			if c != nil {
				s := sorted(c)
				a.FastPeriod, a.SlowPeriod = s[0], s[1]
			}
			return a
		},
		Implied: func(inst any) int { return inst.(*trend.Apo[F]).SlowPeriod - 1 }},
	{Name: "trend.Aroon", Sig: "hl", NOut: 2, NCfg: 1,
		Make: func(c []int) any {
			a := trend.NewAroon[F]()
			if c != nil {
				a.Period = c[0]
			}
			return a
		},
		Implied: func(inst any) int { return inst.(*trend.Aroon[F]).Period - 1 }},
	{Name: "trend.Bop", Sig: "ohlc", NOut: 1, Make: func(c []int) any { return trend.NewBop[F]() }, Implied: func(any) int { return 0 }},
	{Name: "trend.Cci", Sig: "hlc", NOut: 1, NCfg: 1, Make: func(c []int) any {
		if c == nil {
			return trend.NewCci[F]()
		}
		return trend.NewCciWithPeriod[F](c[0])
	}},
	{Name: "trend.Dema", Sig: "c", NOut: 1, NCfg: 2, Make: func(c []int) any {
		d := trend.NewDema[F]()
		if c != nil {
			d.Ema1.Period, d.Ema2.Period = c[0], c[1]
		}
		return d
	}},
	{Name: "trend.Ema", Sig: "c", NOut: 1, NCfg: 1, Make: func(c []int) any {
		if c == nil {
			return trend.NewEma[F]()
		}
		return trend.NewEmaWithPeriod[F](c[0])
	}},
	{Name: "trend.EnvelopeSma", Sig: "c", NOut: 3, NCfg: 1, Make: func(c []int) any {
		if c == nil {
			return trend.NewEnvelopeWithSma[F]()
		}
		return trend.NewEnvelope[F](trend.NewSmaWithPeriod[F](c[0]), 20)
	}},
	{Name: "trend.EnvelopeEma", Sig: "c", NOut: 3, NCfg: 1, Make: func(c []int) any {
		if c == nil {
			return trend.NewEnvelopeWithEma[F]()
		}
		return trend.NewEnvelope[F](trend.NewEmaWithPeriod[F](c[0]), 20)
	}},
	{Name: "trend.Hma", Sig: "c", NOut: 1, NCfg: 1, NoScale: true, Make: func(c []int) any {
		if c == nil {
			return trend.NewHmaWithPeriod[F](9)
		}
		return trend.NewHmaWithPeriod[F](c[0])
	}},
	{Name: "trend.Kama", Sig: "c", NOut: 1, NCfg: 3, Make: func(c []int) any {
		if c == nil {
			return trend.NewKama[F]()
		}
		fs := sorted(c[1:3])
		return trend.NewKamaWith[F](c[0], fs[0], fs[1])
	}},
	{Name: "trend.Kdj", Sig: "hlc", NOut: 3, NCfg: 3, Make: func(c []int) any {
		k := trend.NewKdj[F]()
		if c != nil {
			k.MovingMax.Period, k.MovingMin.Period, k.Sma1.Period, k.Sma2.Period = c[0], c[0], c[1], c[2]
		}
		return k
	}},
	{Name: "trend.Macd", Sig: "c", NOut: 2, NCfg: 3, Make: func(c []int) any {
		if c == nil {
			return trend.NewMacd[F]()
		}
		s := sorted(c[:2])
		return trend.NewMacdWithPeriod[F](s[0], s[1], c[2])
	}},
	{Name: "trend.MassIndex", Sig: "hl", NOut: 1, NCfg: 3, Make: func(c []int) any {
		m := trend.NewMassIndex[F]()
		if c != nil {
			m.Ema1.Period, m.Ema2.Period, m.MovingSum.Period = c[0], c[1], c[2]
		}
		return m
	}},
	{Name: "trend.Mlr", Sig: "xc", NOut: 1, NCfg: 1, NoScale: true, Make: func(c []int) any {
		if c == nil {
			return trend.NewMlrWithPeriod[F](5)
		}
		return trend.NewMlrWithPeriod[F](c[0])
	}},
	{Name: "trend.Mls", Sig: "xc", NOut: 2, NCfg: 1, NoScale: true, Make: func(c []int) any {
		if c == nil {
			return trend.NewMlsWithPeriod[F](5)
		}
		return trend.NewMlsWithPeriod[F](c[0])
	}},
	{Name: "trend.MovingMax", Sig: "c", NOut: 1, NCfg: 1, Make: func(c []int) any {
		if c == nil {
			return trend.NewMovingMaxWithPeriod[F](5) // the plain constructor leaves the period unset (0)
		}
		return trend.NewMovingMaxWithPeriod[F](c[0])
	}},
	{Name: "trend.MovingMin", Sig: "c", NOut: 1, NCfg: 1, Make: func(c []int) any {
		if c == nil {
			return trend.NewMovingMinWithPeriod[F](5) // the plain constructor leaves the period unset (0)
		}
		return trend.NewMovingMinWithPeriod[F](c[0])
	}},
	{Name: "trend.MovingSum", Sig: "c", NOut: 1, NCfg: 1, Make: func(c []int) any {
		if c == nil {
			return trend.NewMovingSum[F]()
		}
		return trend.NewMovingSumWithPeriod[F](c[0])
	}},
	{Name: "trend.Rma", Sig: "c", NOut: 1, NCfg: 1, Make: func(c []int) any {
		if c == nil {
			return trend.NewRma[F]()
		}
		return trend.NewRmaWithPeriod[F](c[0])
	}},
	{Name: "trend.Sma", Sig: "c", NOut: 1, NCfg: 1, Make: func(c []int) any {
		if c == nil {
			return trend.NewSma[F]()
		}
		return trend.NewSmaWithPeriod[F](c[0])
	}},
	{Name: "trend.Smma", Sig: "c", NOut: 1, NCfg: 1, Make: func(c []int) any {
		if c == nil {
			return trend.NewSmma[F]()
		}
		return trend.NewSmmaWithPeriod[F](c[0])
	}},
	{Name: "trend.Tema", Sig: "c", NOut: 1, NCfg: 3, Make: func(c []int) any {
		t := trend.NewTema[F]()
		if c != nil {
			t.Ema1.Period, t.Ema2.Period, t.Ema3.Period = c[0], c[1], c[2]
		}
		return t
	}},
	{Name: "trend.Trima", Sig: "c", NOut: 1, NCfg: 1, Make: func(c []int) any {
		t := trend.NewTrima[F]()
		if c != nil {
			t.Period = c[0]
		}
		return t
	}},
	{Name: "trend.Trix", Sig: "c", NOut: 1, NCfg: 1, Make: func(c []int) any {
		t := trend.NewTrix[F]()
		if c != nil {
			t.Period = c[0]
		}
		return t
	}},
	{Name: "trend.Tsi", Sig: "c", NOut: 1, NCfg: 2, Make: func(c []int) any {
		if c == nil {
			return trend.NewTsi[F]()
		}
		return trend.NewTsiWith[F](c[0], c[1])
	}},
	{Name: "trend.TypicalPrice", Sig: "hlc", NOut: 1, Make: func(c []int) any { return trend.NewTypicalPrice[F]() }, Implied: func(any) int { return 0 }},
	{Name: "trend.Vwma", Sig: "cv", NOut: 1, NCfg: 1, Make: func(c []int) any {
		v := trend.NewVwma[F]()
		if c != nil {
			v.Period = c[0]
		}
		return v
	}},
	{Name: "trend.WeightedClose", Sig: "hlc", NOut: 1, Make: func(c []int) any { return trend.NewWeightedClose[F]() }},
	{Name: "trend.Wma", Sig: "c", NOut: 1, NCfg: 1, Make: func(c []int) any {
		if c == nil {
			return trend.NewWmaWith[F](5)
		}
		return trend.NewWmaWith[F](c[0])
	}},
	// ---- momentum
	{Name: "momentum.AwesomeOscillator", Sig: "hl", NOut: 1, NCfg: 2, Make: func(c []int) any {
		a := momentum.NewAwesomeOscillator[F]()
		if c != nil {
			s := sorted(c)
			a.ShortSma.Period, a.LongSma.Period = s[0], s[1]
		}
		return a
	}},
	{Name: "momentum.ChaikinOscillator", Sig: "hlcv", NOut: 2, NCfg: 2, Make: func(c []int) any {
		a := momentum.NewChaikinOscillator[F]()
		if c != nil {
			s := sorted(c)
			a.ShortEma.Period, a.LongEma.Period = s[0], s[1]
		}
		return a
	}},
	{Name: "momentum.IchimokuCloud", Sig: "hlc", NOut: 5, NCfg: 4, ZeroAt: 4, Make: func(c []int) any {
		a := momentum.NewIchimokuCloud[F]()
		if c != nil {
			s := sorted(c[:3])
			a.ConversionMax.Period, a.ConversionMin.Period = s[0], s[0]
			a.BaseMax.Period, a.BaseMin.Period = s[1], s[1]
			a.LeadingMax.Period, a.LeadingMin.Period = s[2], s[2]
			a.LaggingPeriod = c[3]
		}
		return a
	}},
	{Name: "momentum.Ppo", Sig: "c", NOut: 3, NCfg: 3, Make: func(c []int) any {
		a := momentum.NewPpo[F]()
		if c != nil {
			s := sorted(c[:2])
			a.ShortEma.Period, a.LongEma.Period, a.SignalEma.Period = s[0], s[1], c[2]
		}
		return a
	}},
	{Name: "momentum.Pvo", Sig: "v", NOut: 3, NCfg: 3, Make: func(c []int) any {
		a := momentum.NewPvo[F]()
		if c != nil {
			s := sorted(c[:2])
			a.ShortEma.Period, a.LongEma.Period, a.SignalEma.Period = s[0], s[1], c[2]
		}
		return a
	}},
	{Name: "momentum.Qstick", Sig: "oc", NOut: 1, NCfg: 1, Make: func(c []int) any {
		a := momentum.NewQstick[F]()
		if c != nil {
			a.Sma.Period = c[0]
		}
		return a
	}},
	{Name: "momentum.Rsi", Sig: "c", NOut: 1, NCfg: 1, Make: func(c []int) any {
		if c == nil {
			return momentum.NewRsi[F]()
		}
		return momentum.NewRsiWithPeriod[F](c[0])
	}},
	{Name: "momentum.StochasticOscillator", Sig: "hlc", NOut: 2, NCfg: 2, Make: func(c []int) any {
		a := momentum.NewStochasticOscillator[F]()
		if c != nil {
			a.Max.Period, a.Min.Period, a.Sma.Period = c[0], c[0], c[1]
		}
		return a
	}},
	{Name: "momentum.StochasticRsi", Sig: "c", NOut: 1, NCfg: 2, Make: func(c []int) any {
		if c == nil {
			return momentum.NewStochasticRsi[F]()
		}
		a := momentum.NewStochasticRsiWithPeriod[F](c[0])
		if len(c) > 1 {
			// StochRSI(14, 9): the stochastic window (its moving minimum and maximum, exported
			// fields) need not be the RSI period
			a.Min.Period, a.Max.Period = c[1], c[1]
		}
		return a
	}},
	{Name: "momentum.WilliamsR", Sig: "hlc", NOut: 1, NCfg: 1, Make: func(c []int) any {
		a := momentum.NewWilliamsR[F]()
		if c != nil {
			a.Max.Period, a.Min.Period = c[0], c[0]
		}
		return a
	}},
	// ---- volatility
	{Name: "volatility.AccelerationBands", Sig: "hlc", NOut: 3, NCfg: 1, Make: func(c []int) any {
		a := volatility.NewAccelerationBands[F]()
		if c != nil {
			a.Period = c[0]
		}
		return a
	}},
	{Name: "volatility.Atr", Sig: "hlc", NOut: 1, NCfg: 1, Make: func(c []int) any {
		if c == nil {
			return volatility.NewAtr[F]()
		}
		return volatility.NewAtrWithPeriod[F](c[0])
	}},
	{Name: "volatility.AtrEma", Sig: "hlc", NOut: 1, NCfg: 1, Make: func(c []int) any {
		if c == nil {
			return volatility.NewAtrWithMa[F](trend.NewEma[F]())
		}
		return volatility.NewAtrWithMa[F](trend.NewEmaWithPeriod[F](c[0]))
	}},
	{Name: "volatility.BollingerBandWidth", Sig: "c", NOut: 1, NCfg: 1, Make: func(c []int) any {
		a := volatility.NewBollingerBandWidth[F]()
		if c != nil {
			a.BollingerBands.Period = c[0]
		}
		return a
	}},
	{Name: "volatility.BollingerBands", Sig: "c", NOut: 3, NCfg: 1, Make: func(c []int) any {
		if c == nil {
			return volatility.NewBollingerBands[F]()
		}
		return volatility.NewBollingerBandsWithPeriod[F](c[0])
	}},
	{Name: "volatility.ChandelierExit", Sig: "hlc", NOut: 2, NCfg: 1, Make: func(c []int) any {
		a := volatility.NewChandelierExit[F]()
		if c != nil {
			a.Period = c[0]
		}
		return a
	}},
	{Name: "volatility.DonchianChannel", Sig: "c", NOut: 3, NCfg: 1, Make: func(c []int) any {
		if c == nil {
			return volatility.NewDonchianChannel[F]()
		}
		return volatility.NewDonchianChannelWithPeriod[F](c[0])
	}},
	{Name: "volatility.KeltnerChannel", Sig: "hlc", NOut: 3, NCfg: 1, Make: func(c []int) any {
		if c == nil {
			return volatility.NewKeltnerChannel[F]()
		}
		return volatility.NewKeltnerChannelWithPeriod[F](c[0])
	}},
	{Name: "volatility.MovingStd", Sig: "c", NOut: 1, NCfg: 1, Make: func(c []int) any {
		if c == nil {
			return volatility.NewMovingStd[F]()
		}
		return volatility.NewMovingStdWithPeriod[F](c[0])
	}},
	{Name: "volatility.PercentB", Sig: "c", NOut: 1, NCfg: 1, Make: func(c []int) any {
		if c == nil {
			return volatility.NewPercentB[F]()
		}
		return volatility.NewPercentBWithPeriod[F](c[0])
	}},
	{Name: "volatility.Po", Sig: "hlc", NOut: 1, NCfg: 1, NoScale: true, Make: func(c []int) any {
		if c == nil {
			return volatility.NewPo[F]()
		}
		return volatility.NewPoWithPeriod[F](c[0])
	}},
	{Name: "volatility.SuperTrend", Sig: "hlc", NOut: 1, NCfg: 1, Make: func(c []int) any {
		if c == nil {
			return volatility.NewSuperTrend[F]()
		}
		return volatility.NewSuperTrendWithPeriod[F](c[0], 2.5)
	}},
	{Name: "volatility.UlcerIndex", Sig: "c", NOut: 1, NCfg: 1, Make: func(c []int) any {
		a := volatility.NewUlcerIndex[F]()
		if c != nil {
			a.Period = c[0]
		}
		return a
	}},
	// ---- the types that take a moving average through the Ma interface, over every Ma implementation
	{Name: "volatility.AtrMa", Sig: "hlc", NOut: 1, NCfg: 2, NoScale: true, Make: func(c []int) any {
		if c == nil {
			return volatility.NewAtrWithMa[F](trend.NewHmaWithPeriod[F](9))
		}
		return volatility.NewAtrWithMa[F](makeMa(c[1], c[0]))
	}},
	{Name: "trend.EnvelopeMa", Sig: "c", NOut: 3, NCfg: 2, NoScale: true, Make: func(c []int) any {
		if c == nil {
			return trend.NewEnvelope[F](trend.NewHmaWithPeriod[F](9), 15)
		}
		return trend.NewEnvelope[F](makeMa(c[1], c[0]), 15)
	}},
	{Name: "trend.TsiMa", Sig: "c", NOut: 1, NCfg: 4, NoScale: true, Make: func(c []int) any {
		t := trend.NewTsi[F]()
		if c != nil {
			t.FirstSmoothing, t.SecondSmoothing = makeMa(c[2], c[0]), makeMa(c[3], c[1])
		}
		return t
	}},
	{Name: "volatility.SuperTrendMa", Sig: "hlc", NOut: 1, NCfg: 2, NoScale: true, Make: func(c []int) any {
		if c == nil {
			return volatility.NewSuperTrendWithMa[F](trend.NewWmaWith[F](6), 3)
		}
		return volatility.NewSuperTrendWithMa[F](makeMa(c[1], c[0]), 3)
	}},
	{Name: "volatility.KeltnerChannelParts", Sig: "hlc", NOut: 3, NCfg: 3, NoScale: true, Make: func(c []int) any {
		k := volatility.NewKeltnerChannel[F]()
		if c != nil {
			// the bands are aligned by skipping Atr.Idle - Ema.Idle values of the EMA: the ATR must
			// not warm up before the EMA
			k.Ema = trend.NewEmaWithPeriod[F](min(c[0], c[1]))
			k.Atr = volatility.NewAtrWithMa[F](makeMa(c[2], max(c[0], c[1])))
			if k.Atr.IdlePeriod() < k.Ema.IdlePeriod() {
				k.Atr = volatility.NewAtrWithPeriod[F](max(c[0], c[1]))
			}
		}
		return k
	}},
	// ---- volume
	{Name: "volume.Ad", Sig: "hlcv", NOut: 1, Make: func(c []int) any { return volume.NewAd[F]() }},
	{Name: "volume.Cmf", Sig: "hlcv", NOut: 1, NCfg: 1, Make: func(c []int) any {
		if c == nil {
			return volume.NewCmf[F]()
		}
		return volume.NewCmfWithPeriod[F](c[0])
	}},
	{Name: "volume.Emv", Sig: "hlv", NOut: 1, NCfg: 1, Make: func(c []int) any {
		if c == nil {
			return volume.NewEmv[F]()
		}
		return volume.NewEmvWithPeriod[F](c[0])
	}},
	{Name: "volume.Fi", Sig: "cv", NOut: 1, NCfg: 1, Make: func(c []int) any {
		if c == nil {
			return volume.NewFi[F]()
		}
		return volume.NewFiWithPeriod[F](c[0])
	}},
	{Name: "volume.Mfi", Sig: "hlcv", NOut: 1, NCfg: 1, Make: func(c []int) any {
		a := volume.NewMfi[F]()
		if c != nil {
			a.Sum.Period = c[0]
		}
		return a
	}},
	{Name: "volume.Mfm", Sig: "hlc", NOut: 1, Make: func(c []int) any { return volume.NewMfm[F]() }},
	{Name: "volume.Mfv", Sig: "hlcv", NOut: 1, Make: func(c []int) any { return volume.NewMfv[F]() }},
	{Name: "volume.Nvi", Sig: "cv", NOut: 1, Make: func(c []int) any { return volume.NewNvi[F]() }},
	{Name: "volume.Obv", Sig: "cv", NOut: 1, Make: func(c []int) any { return volume.NewObv[F]() }},
	{Name: "volume.Vpt", Sig: "cv", NOut: 1, Make: func(c []int) any { return volume.NewVpt[F]() }},
	{Name: "volume.Vwap", Sig: "cv", NOut: 1, NCfg: 1, Make: func(c []int) any {
		if c == nil {
			return volume.NewVwap[F]()
		}
		return volume.NewVwapWithPeriod[F](c[0])
	}},
}

// makeMa returns one of the moving averages that implement trend.Ma.
func makeMa(kind, period int) trend.Ma[F] {
	switch kind % 6 {
	case 0:
		return trend.NewEmaWithPeriod[F](period)
	case 1:
		return trend.NewSmaWithPeriod[F](period)
	case 2:
		return trend.NewHmaWithPeriod[F](period)
	case 3:
		return trend.NewWmaWith[F](period)
	case 4:
		return trend.NewSmmaWithPeriod[F](period)
	}
	return trend.NewKamaWith[F](period, 2, 30)
}

var indByName = map[string]*IndEntity{}

// UnsetIndicators: instances as the plain constructors of the window types leave them - no period
// set (0). Their output is degenerate and no warm-up contract applies, but they are instances:
// C09 (same result as a fresh instance, however often and concurrently used) draws them too.
var UnsetIndicators = []*IndEntity{
	{Name: "trend.MovingMaxUnset", Sig: "c", NOut: 1, NoScale: true, Unset: true, Make: func(c []int) any { return trend.NewMovingMax[F]() }},
	{Name: "trend.MovingMinUnset", Sig: "c", NOut: 1, NoScale: true, Unset: true, Make: func(c []int) any { return trend.NewMovingMin[F]() }},
}

func init() {
	for _, e := range Indicators {
		indByName[e.Name] = e
	}
	for _, e := range UnsetIndicators {
		indByName[e.Name] = e
	}
}

// scalePeriods divides every int field whose name contains "Period" by k (minimum 1), through
// pointers, interfaces and nested structs. Monotone, so documented orderings (fast <= slow) and
// equalities (paired max/min periods) are preserved.
func scalePeriods(v reflect.Value, k int, depth int) {
	if depth > 64 || k <= 1 {
		return
	}
	switch v.Kind() {
	case reflect.Ptr, reflect.Interface:
		if !v.IsNil() {
			scalePeriods(v.Elem(), k, depth+1)
		}
	case reflect.Struct:
		for i := 0; i < v.NumField(); i++ {
			f := v.Field(i)
			name := v.Type().Field(i).Name
			if !f.CanSet() {
				if !f.CanAddr() {
					continue
				}
				f = reflect.NewAt(f.Type(), unsafe.Pointer(f.UnsafeAddr())).Elem()
			}
			if f.Kind() == reflect.Int && strings.Contains(name, "Period") {
				f.SetInt(int64(max(1, (int(f.Int())+k-1)/k)))
			} else {
				scalePeriods(f, k, depth+1)
			}
		}
	}
}

// scalePublicOnly: the case scales only what a user of the package can set (exported period
// fields, reached through exported fields) instead of every period field including the private
// ones; set per case by runCase.
var scalePublicOnly bool

func scaleConfig(v reflect.Value, k int) {
	if scalePublicOnly {
		swapMa = true
		rescaleExported(v, k, 0)
		swapMa = false
		return
	}
	scalePeriods(v, k, 0)
}

// IndInstance is a configured indicator.
type IndInstance struct {
	E    *IndEntity
	Inst any
	Idle int // warm-up: IdlePeriod() or implied
}

// makeInd builds the instance for (entity, cfg, scale). cfg empty = defaults.
func makeInd(e *IndEntity, cfg []int, scale int) *IndInstance {
	var c []int
	if len(cfg) > 0 {
		c = cfg
	}
	inst := e.Make(c)
	if scale > 1 && !e.NoScale && len(cfg) == 0 {
		scaleConfig(reflect.ValueOf(inst), scale)
	}
	ii := &IndInstance{E: e, Inst: inst}
	if askTwin {
		// the declared warm-up is read from a twin of the same configuration, so that the instance
		// that computes has had none of its methods called (a getter that initialises, caches or
		// normalises something would otherwise always have run before the first Compute)
		twin := e.Make(c)
		if scale > 1 && !e.NoScale && len(cfg) == 0 {
			scaleConfig(reflect.ValueOf(twin), scale)
		}
		t := &IndInstance{E: e, Inst: twin}
		t.declareIdle()
		ii.Idle = t.Idle
		return ii
	}
	ii.declareIdle()
	return ii
}

// askTwin: see makeInd. C09 switches it off for half of its cases (then the instance itself is asked).
var askTwin = true

// skipIdleDecl: C09 hands half of its instances to the pipelines without having called any of
// their methods first (a getter that initialises or normalises something on first use would
// otherwise always have run before the first Compute).
var skipIdleDecl bool

// declareIdle reads the warm-up the instance declares (IdlePeriod(), or the one its formula implies).
func (ii *IndInstance) declareIdle() {
	v := reflect.ValueOf(ii.Inst)
	if ii.E.Unset || skipIdleDecl {
		ii.Idle = 0 // not asked: the instance is handed over exactly as its constructor left it
		return
	}
	if m := v.MethodByName("IdlePeriod"); m.IsValid() {
		ii.Idle = int(m.Call(nil)[0].Int())
	} else if ii.E.Implied != nil {
		ii.Idle = ii.E.Implied(ii.Inst)
	} else {
		panic("no warm-up known for " + ii.E.Name)
	}
}

// Build returns the pipeline constructor for runPipe.
func (ii *IndInstance) Build() func(in []<-chan F) []<-chan F {
	cm := reflect.ValueOf(ii.Inst).MethodByName("Compute")
	return func(in []<-chan F) []<-chan F {
		args := make([]reflect.Value, len(in))
		for i := range in {
			args[i] = reflect.ValueOf(in[i])
		}
		res := cm.Call(args)
		outs := make([]<-chan F, len(res))
		for i := range res {
			outs[i] = res[i].Interface().(<-chan F)
		}
		return outs
	}
}

func (ii *IndInstance) String() string { return fmt.Sprintf("%s idle=%d", ii.E.Name, ii.Idle) }

// maxIdle returns the largest IdlePeriod() declared by anything reachable from v (the strategy's
// indicators, sub-strategies, moving averages), or 0.
func maxIdle(v reflect.Value, depth int) int {
	if depth > 64 || !v.IsValid() {
		return 0
	}
	best := 0
	switch v.Kind() {
	case reflect.Ptr, reflect.Interface:
		if v.IsNil() {
			return 0
		}
		if v.Kind() == reflect.Ptr {
			if m := v.MethodByName("IdlePeriod"); m.IsValid() && m.Type().NumIn() == 0 && m.Type().NumOut() == 1 && v.CanInterface() {
				best = max(best, int(m.Call(nil)[0].Int()))
			}
		}
		best = max(best, maxIdle(v.Elem(), depth+1))
	case reflect.Struct:
		for i := 0; i < v.NumField(); i++ {
			if v.Type().Field(i).IsExported() {
				best = max(best, maxIdle(v.Field(i), depth+1))
			}
		}
	case reflect.Slice:
		for i := 0; i < v.Len(); i++ {
			best = max(best, maxIdle(v.Index(i), depth+1))
		}
	}
	return best
}
