package harness

import (
	"fmt"
	"math/rand"

	"github.com/cinar/indicator/v2/asset"
	"github.com/cinar/indicator/v2/strategy"
	"simrt"
)

func (c *Case) pipeOpts() PipeOpts {
	return PipeOpts{SimOpts: SimOpts{Policy: c.Policy, Record: c.Record, MaxSteps: 3_000_000}, Cap: c.Cap, LateFeed: c.Late, EarlyFeed: c.Early, Neighbour: c.Nbr}
}

// runInd executes an indicator case.
func runInd(c *Case, o PipeOpts) (*PipeResult[F], *IndInstance) {
	e := indByName[c.Entity]
	if e == nil {
		panic("unknown indicator " + c.Entity)
	}
	ii := c.ind()
	inputs := floatInputs(e.Sig, c.Lens, c.Shape, c.DataSeed)
	// the instance that computes is made inside the simulation (anything a constructor creates -
	// a channel, a timer - then belongs to the bubble); ii only tells the declared warm-up
	return runPipe(o, inputs, func(in []<-chan F) []<-chan F { return c.ind().Build()(in) }), ii
}

// runStrat executes a strategy case (one snapshot input, one action output).
func runStrat(c *Case, o PipeOpts) *PipeResult[strategy.Action] {
	snaps := genSnapshots(c.Lens[0], c.Shape, c.DataSeed, epoch)
	return runPipe(o, [][]*asset.Snapshot{snaps}, func(in []<-chan *asset.Snapshot) []<-chan strategy.Action {
		return []<-chan strategy.Action{c.strat().Compute(in[0])}
	})
}

// termination classifies how a pipeline run ended. ok means: every producer finished, every
// output closed, no task of the library is left.
func termination(o *SimOut, closed, prodDone []bool, built bool) (ok bool, kind, detail string) {
	if len(o.Panics) > 0 {
		return false, "panic", fmt.Sprint(o.Panics)
	}
	if !built {
		return false, "deadlock", "pipeline constructor never returned; " + stuckSummary(o.Stuck)
	}
	lib := o.LibStuck()
	if !allTrue(closed) || !allTrue(prodDone) {
		return false, "deadlock", fmt.Sprintf("outputs closed=%v producers finished=%v; %s", closed, prodDone, stuckSummary(o.Stuck))
	}
	if len(lib) > 0 {
		return false, "leak", "all outputs closed and inputs consumed, but " + stuckSummary(lib)
	}
	return true, "", ""
}

func lenRegime(lens []int, idle int) string {
	if !equalInts(lens) {
		return "unequal-lengths"
	}
	if lens[0] <= idle {
		return "n<=idle"
	}
	return "n>idle"
}

func noteCase(st *Stats, c *Case, regime string, o *SimOut) {
	st.noteSim(o)
	if o.NonFifo > 0 || regime != "n>idle" {
		cfgClass := "default"
		if len(c.Cfg) > 0 {
			cfgClass = fmt.Sprint(c.Cfg)
		} else if c.Scale > 1 {
			cfgClass = fmt.Sprintf("scaled/%d", c.Scale)
		}
		st.cell(c.Family, c.Entity, cfgClass, regime, c.Policy.Name)
	}
	switch regime {
	case "n<=idle":
		st.Faults["eof-before-warm-up"]++
	case "unequal-lengths":
		st.Faults["unequal-eof"]++
	}
	if c.Policy.Name == "starve" {
		st.Faults["starved-task-policy"]++
	}
	if c.Cap > 0 {
		st.Probes["buffered-inputs"]++
	}
}

// genIndCase draws an indicator case. equalOnly forces equal input lengths.
func genIndCase(rng *rand.Rand, tier string, equalOnly bool) *Case {
	e := Indicators[rng.Intn(len(Indicators))]
	c := &Case{Family: "ind", Entity: e.Name}
	c.Cfg, c.Scale = genIndConfig(rng, e, true)
	ii := c.ind()
	maxLong := 120
	if tier == "thorough" {
		maxLong = 320
	}
	n := genLen(rng, ii.Idle, maxLong)
	if rng.Intn(300) == 0 {
		n = 1000 + rng.Intn(1400) // years of daily bars in one stream: more than any batch, block or refresh interval
	}
	c.Lens = make([]int, len(e.Sig))
	for i := range c.Lens {
		c.Lens[i] = n
	}
	if !equalOnly && len(c.Lens) > 1 && rng.Intn(10) < 3 {
		for k := 0; k < 1+rng.Intn(2); k++ {
			i := rng.Intn(len(c.Lens))
			c.Lens[i] = max(0, n+rng.Intn(2*ii.Idle+5)-ii.Idle-2)
		}
	}
	c.Shape = rng.Intn(NumShapes)
	c.DataSeed = rng.Int63n(1 << 30)
	if rng.Intn(2) == 0 {
		c.Cap = rng.Intn(5)
		if deepTier && rng.Intn(4) == 0 {
			c.Cap = 5 + rng.Intn(60)
		}
	}
	c.Policy = genPolicy(rng)
	if rng.Intn(5) == 0 {
		c.Variant = 1 + rng.Intn(2) // smoothing constants, percentages, multipliers off their defaults
	}
	return c
}

// genStratCase draws a strategy case.
func genStratCase(rng *rand.Rand, tier string) *Case {
	c := &Case{Family: "strat"}
	setSpec(c, genStratSpec(rng, 0, true))
	maxLong := 150
	if tier == "thorough" {
		maxLong = 320
	}
	s := measureWarmup(c)
	n := genLen(rng, s, maxLong)
	if c.Scale <= 1 && len(c.Cfg) == 0 && n > 260 {
		n = 260
	}
	if len(c.Subs) == 0 && rng.Intn(250) == 0 {
		n = 1030 + rng.Intn(600) // four to six years of daily bars through one base strategy
	}
	c.Lens = []int{n}
	c.Shape = rng.Intn(NumShapes)
	c.DataSeed = rng.Int63n(1 << 30)
	if rng.Intn(2) == 0 {
		c.Cap = rng.Intn(5)
		if deepTier && rng.Intn(4) == 0 {
			c.Cap = 5 + rng.Intn(60)
		}
	}
	c.Policy = genPolicy(rng)
	if rng.Intn(5) == 0 {
		c.Variant = 1 + rng.Intn(2) // thresholds, percentages, multipliers off their defaults
	}
	return c
}

var warmupCache = map[string]int{}

// measureWarmup returns the warm-up a strategy declares operationally: the number of actions
// (Holds) it emits for an empty input, i.e. the amount of its final Shift. -1 if the run on the
// empty input does not terminate.
func measureWarmup(c *Case) int {
	key := fmt.Sprintf("%s|%v|%d|%v|%v", specName(c.spec()), c.Cfg, c.Scale, c.Subs, scalePublicOnly)
	if v, ok := warmupCache[key]; ok {
		return v
	}
	d := *c
	d.Lens = []int{0}
	d.Cap = 0
	d.Policy = simrt.PolicySpec{Name: "fifo"}
	r := runStrat(&d, d.pipeOpts())
	v := -1
	if len(r.Outs) == 1 && r.Closed[0] {
		v = len(r.Outs[0])
	}
	warmupCache[key] = v
	return v
}
