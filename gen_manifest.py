#!/usr/bin/env python3
"""Regenerates /verif/MANIFEST.json from the table below (kept as code so that the file is always valid)."""
import json
checks = {
 "C02": ("pipeline-sim", "4 (C02)", "deterministic simulation: seeded schedules + end-of-stream placed at every position around the warm-up; conservation count oracle max(0,n-idle) on every output"),
 "C03": ("pipeline-sim", "4 (C03)", "deterministic simulation: seeded controller decides every channel operation of every pipeline goroutine; exact deadlock/leak census at quiescence; outputs compared with the canonical FIFO schedule"),
 "C04": ("pipeline-sim", "4 (C04)", "deterministic simulation: producers stalled after every position with quiescence detection (causality: values delivered before later inputs exist cannot depend on them); EOF-at-cut and altered-suffix differential runs for the positions that are not prompt"),
 "C05": ("pipeline-sim", "4 (C05)", "deterministic simulation: seeded schedules + end-of-stream around the strategy warm-up; count/alphabet/Hold-through-warm-up oracle on the action stream"),
 "C09": ("pipeline-sim", "4 (C09)", "deterministic simulation: several Compute/Report calls on one instance, sequential or interleaved stage by stage by the seeded controller; oracle = fresh-instance results; (race clause: Go race detector on free-running runs of the same workloads)"),
 "C10": ("io-sim", "4 (C10)", "deterministic simulation: operation histories against three repository implementations (real SQLRepository + database/sql over a simulated driver, real files, in-memory) with the goroutines each call spawns under the seeded controller; reference map model stepped operation by operation"),
 "C11": ("io-sim", "4 (C11)", "deterministic simulation: histories of write/append/append-or-write on one path with row producers and reader goroutines under the seeded controller, fragmenting readers; model-file oracle after every operation, bit-exact"),
 "C19": ("io-sim", "4 (C19)", "deterministic simulation with fault injection: documents with drawn byte-level faults delivered in drawn fragments with read errors at any offset, scripted HTTP statuses / transport errors / body errors, unreadable files; captured panics, exact census, independent reference decode of the well-formed prefix"),
 "C12": ("sync-sim", "4 (C12)", "deterministic simulation with fault injection: Sync.Run worker pool, simulated clock for Delay, per-asset source-read and target-append failures, three consecutive runs (faulty, clean, clean) over in-memory / file-system / SQL targets under seeded schedules; reference sync model over repository contents, error reporting, idempotence, bounded completion in steps and simulated seconds; (race clause: Go race detector on free-running runs)"),
 "C13": ("backtest-sim", "4 (C13)", "deterministic simulation: Backtest.Run worker pool (1..16) with simulated time.Now, PRNG-ordered repository listing, empty/missing/window-cut assets, three report implementations under seeded schedules; recorded protocol history, direct evaluation of every pair, parsed HTML rankings; (race clause: Go race detector on free-running runs)"),
 "C14": ("pipeline-sim", "4 (C14)", "deterministic simulation: the real template renders the report as a lock-step single-task consumer of all column channels under seeded schedules; closed-channel probes on column reads, reflection drain of the column channels after the last row, exact census, rendered rows compared with the strategy's own Compute/Outcome"),
 "C16": ("pipeline-sim", "4 (C16)", "deterministic simulation: seeded schedules, independently placed ends of the input streams, capacities; exact slice-model oracle plus exact census (longer inputs consumed, outputs closed, no task left)"),
}
na = {
 "C01": "pure function of inputs and configuration (value equals documented formula); no schedule, fault, clock or history in it - C03 shows outputs are schedule-independent, so simulation adds nothing; would need 61 reference formulas, i.e. a different technique",
 "C06": "pure function of the OHLCV values (decision rule on documented fields); nothing a simulator controls can change it",
 "C07": "pure transducers over action words and closing prices; their liveness with real sub-strategies is covered by C03/C05",
 "C08": "sequential state machine over two value sequences; nothing concurrent, timed or faulty decides it",
 "C15": "range/ordering of indicator values is a pure function of the inputs",
 "C17": "Ring and Bst are single-threaded in-memory data structures without I/O; an operation sequence is an input, there is no interleaving or fault to inject",
 "C18": "scale covariance is a relation between two runs on related inputs; pure function of inputs",
}
ENV = "GOFLAGS=-mod=mod GOPROXY=off GOSUMDB=off GOTOOLCHAIN=local"
m = {
 "version": 1,
 "setup_cmd": f"cd /verif/siminstr && {ENV} /opt/veriftools/go1.26.8/bin/go build -o /verif/bin/siminstr . && cd /verif/simrt && {ENV} /opt/veriftools/go1.26.8/bin/go build ./... && {ENV} /opt/veriftools/go1.26.8/bin/go build -race std",
 "hooks": {
  "guard": "none (no hook is committed to /repo)",
  "enable": "every check copies /repo's working tree to a scratch directory and AST-instruments the copy (/verif/siminstr): yields before channel operations, go statements through simrt.Go, mutex, WaitGroup and sync/atomic operations as scheduling points, a loop counter in every for body (busy-loop detection), simulated clock, os.Open/OpenFile/Create/Stat/ReadDir/MkdirAll through simrt (injected file faults); /repo itself is never modified",
  "baseline_off_cmd": "cd /repo && go test -vet=off -count=1 ./...",
  "source_commits": [],
  "add_only": True,
 },
 "engines": [
  {"name": "io-sim", "path": "/verif/harness (simenv.go, c10/c11/c19)", "serves_properties": sorted(k for k in checks if checks[k][0]=="io-sim"),
   "kind_free_text": "same controller; simulated byte sources/sinks (fragmenting and failing readers/writers), simulated HTTP transport and SQL driver, real files in a per-run directory"},
  {"name": "sync-sim", "path": "/verif/harness (c12.go)", "serves_properties": ["C12"],
   "kind_free_text": "same controller plus discrete-event clock; FaultRepo wrappers inject per-asset failures; worker interleavings and timer firings are scheduling decisions"},
  {"name": "backtest-sim", "path": "/verif/harness (c13.go)", "serves_properties": ["C13"],
   "kind_free_text": "same controller; recording report stub, real DataReport/HTMLReport writing into a per-run directory, simulated now"},
  {"name": "race-mon", "path": "/verif/harness/race.go + /verif/check (phase 4b)", "serves_properties": ["C09", "C12", "C13"],
   "kind_free_text": "companion for the data-race clause only: the same seeded workloads, un-instrumented and free-running under `go test -race` at GOMAXPROCS 1/4/16 inside a synctest bubble; runtime monitoring, not controlled simulation (stated in DESIGN.md 2.7)"},
  {"name": "pipeline-sim", "path": "/verif/simrt + /verif/siminstr + /verif/harness", "serves_properties": sorted(k for k in checks if checks[k][0]=="pipeline-sim"),
   "kind_free_text": "deterministic simulation: real goroutines and channels of the instrumented library, one task released at a time by a seeded controller at testing/synctest quiescence; harness-owned producers, consumers, stream ends and faults"},
 ],
 "checks": [],
 "not_applicable": [],
 "notes": "checks: /verif/check <id> quick|thorough; replay: /verif/check <id> replay <file>. Exit 2 = infrastructure trouble, never a verdict. Known findings: /verif/known_findings.json.",
}
for pid in sorted(checks):
    eng, ref, tech = checks[pid]
    m["checks"].append({
     "property_id": pid,
     "quick_cmd": f"/verif/check {pid} quick",
     "thorough_cmd": f"/verif/check {pid} thorough",
     "evidence_file": f"/verif/evidence/{pid}.json",
     "replay_cmd_template": f"/verif/check {pid} replay {{path}}",
     "engine": eng,
     "level_claimed": {"category": "exploration",
       "text": "seeded search over schedules, stream-end/fault positions and configurations with exact per-run oracles; every failure is a replayable, minimised case. A clean batch is evidence, not proof.",
       "design_ref": "DESIGN.md section " + ref},
     "level_note": "trusted: the Go runtime and testing/synctest quiescence detection (go1.26.8), the AST instrumenter (self-checked by running the repository's tests on the instrumented copy), the harness oracles",
     "technique": tech,
    })
for pid in sorted(na):
    if pid not in checks:
        m["not_applicable"].append({"property_id": pid, "reason": na[pid]})
json.dump(m, open("/verif/MANIFEST.json", "w"), indent=1)
print("checks:", len(m["checks"]), "n/a:", len(m["not_applicable"]))
