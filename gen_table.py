#!/usr/bin/env python3
"""Regenerates section 10 of DESIGN.md (seeded-defect results) from seeded/*/meta.json."""
import json, glob, re, sys
rows = []
for f in sorted(glob.glob('/verif/seeded/*/meta.json')):
    d = json.load(open(f))
    name = f.split('/')[3]
    t = d['checks_run']
    low = t.lower()
    if low.startswith('not reached'):
        c = 'no (limit of the seam)'
    elif 'not claimed' in low:
        c = 'not claimed'
    elif 'missed' in low or '(before)' in low or 'after strengthening' in low or 'after adding' in low:
        c = 'after strengthening'
    else:
        c = 'yes'
    m = re.search(r'wave (\d+)', d.get('source', ''))
    w = m.group(1) if m else '?'
    esc = lambda s: s.replace('|', '\\|').replace('\n', ' ')
    rows.append((name, w, esc(d['change']), esc(d['needs_to_manifest']), c, esc(t)))
n = len(rows)
cnt = {k: sum(1 for r in rows if r[4] == k) for k in ('yes', 'after strengthening', 'not claimed', 'no (limit of the seam)')}
waves = {w: sum(1 for r in rows if r[1] == w) for w in sorted(set(r[1] for r in rows))}
lastwave = max(int(w) for w in waves)
head = f"""## 10. Seeded-defect results

Every change below was written by a sub-agent in its own scratch worktree, was confirmed in a
scratch worktree (builds, the existing suite passes with it, its demonstration fails with it and
passes without it) and is kept under `seeded/<name>/`. Waves 1-3 ({waves.get('1',0)}+{waves.get('2',0)}+{waves.get('3',0)} changes): the
agent saw only the text of one property (in waves 2 and 3 plus a list of directions to look in, written
without reference to what the generators draw). Wave 4 ({waves.get('4',0)} changes) deviates from that on
purpose and is marked as such: those agents were additionally told, in prose, which
configurations, shapes, sizes and fault kinds the generators draw and were asked for changes such
a checker would still miss - they are adversarial to the machinery, not independent of it. Wave 5
({waves.get('5',0)} changes) and waves 6 to {lastwave} ({'+'.join(str(waves.get(str(w),0)) for w in range(6,lastwave+1))} changes) went back to the property text alone (plus the list of earlier
changes to avoid).
"yes" = caught by the quick tier of the machinery as it was when the change arrived; "after
strengthening" = first missed, then caught after the generator or oracle was extended (the last
column says what was missing); "not claimed" = the change does not violate the property as stated
(reason given) and no check is expected to flag it. `/verif/seedtest seeded/<name>` re-runs the
confirmation and the check against a scratch worktree (never /repo). {n} changes: {cnt['yes']} caught at
once, {cnt['after strengthening']} after strengthening, {cnt['not claimed']} not claimed, {cnt['no (limit of the seam)']} not reached because it lives behind a stubbed seam (marked "no" in the table). The recurring lesson of
waves 1-3 was that misses came from the *generator* (a configuration, data shape, name, size or
history class that was never drawn), not from the scheduler or the oracles; wave 4 added two oracle
gaps (a fresh-instance oracle that shares process state with the instance under test; ranking
judged on printed instead of exact outcomes) and the missing file-system seam; wave 5 one more
oracle gap (compounds were judged on counts and warm-up only, not against their members), two
history classes (reconfiguring a live instance; a report write that fails part-way) and three
value classes (dotted names in Sync, control characters and scalar elements in JSON, rows of
maximal width); wave 6 two seam gaps (library timers were outside the simulated clock and no
consumer was ever slow on it; no stream was ever held open across another repository call), two
oracle gaps (outcomes compared with the library's own evaluation; a prefix run only had to
contain the entitled values) and four generator gaps (thresholds, date formats, dynamically
typed JSON, sources out of date order); wave 7 one more seam gap (controlled workers all ran with
the same GOMAXPROCS) and history/value classes again (a codec reused after a damaged document,
repository errors other than the sentinel, long JSON documents, near-duplicate header names);
wave 8 one oracle gap (C13's direct evaluation went through the helper under test) and value
classes (bare carriage returns, defined field types, float32/int element types, names ending in
the letters of the file suffix, all non-period parameters zero); wave 9 two scheduler/seam gaps
(a go statement was no scheduling point for the spawner; results were never compared across
GOMAXPROCS values), one harness limit turned into a verdict (an endless retry loop), the process's
local time zone, and more value classes (Stringer integer types, fractional counts, NaN inputs,
shifts by hundreds, one member listed twice); wave 10 one oracle error of the harness (C13 read the
list of assets back from the Backtest value, so an empty list made the per-asset checks vacuous)
and three generator gaps (repositories built by the public factory, windows of a trading year,
stop-loss percentages of 1 and more); wave 11 one more seam gap (a goroutine that loops without
ever blocking gave no verdict: loops are counted now) and size classes throughout (documents,
histories, backlogs and helper inputs longer than any internal buffer), compounds built by the
registry functions, a failing JSON sink; wave 12 one oracle gap (for base strategies "action i is
the recommendation for snapshot i" was judged on counts and leading Holds only: rule models of 31
strategy types now), two sources the sync check never used (the Tiingo client over a simulated
server with histories of more than a megabyte; repositories built by the factory, file-system
sources), the name of the directory a case works in, and history/value classes (a codec that
writes after reading a permuted header, strings that look like escape sequences, explicit lists
naming only unknown assets, decorated strategies in a backtest, a stochastic window other than
the RSI period); wave 13 one seam gap (the simulated servers ignored request headers: a caller-set
Accept-Encoding is now answered like a real server behind net/http's transport), one generator
habit that hid a class of defects (scaled configurations were written into private fields too:
one case in four now assigns exported fields only), and value/history classes (element kinds
uint8/int8/uint64/float32, strings-only rows, header-less codecs - which exposed a genuine
defect, repaired -, symlinked asset files, one bar delivered twice, every history length from 6
to 205, a zero displacement, two snapshots with one date, bars without a price in C09); wave 14
two scheduler/seam gaps (atomic operations were no scheduling points; the producers always ran
before the pipeline was built) and one blind spot of the harness itself (it asked every instance
for its IdlePeriod() before the first Compute, hiding getters that write; nothing ran next to a
pipeline, hiding package-level state), plus history classes (streams with values queued before
the call, output directories of earlier runs, CSV-backed backtests over more than 256 rows); wave
15 one consumer shape nobody had (all streams of concurrent calls read in step by one reader), one
entry point C03 never drove (ComputeWithOutcome), and size/value classes (inputs of 1000-2400
values, periods above 256, fan-outs up to 25, dates after 2262, look-backs of centuries,
strings-only rows in C19, symlinked files in C13); wave 16 value and history classes again (series
that open with bars without a quote, a zero close on the latest bar of a backtest, a default
start date with a time of day, tickers that differ only in case, later calls of 800-1500 values,
the same decorator twice, a moving average replaced after construction, pointer elements in
Filter, periods kept in a slice, a factory-built Tiingo repository); wave 17 four more value and
shape classes (time values held in a zone other than UTC, an untagged time field after a tagged
one, operands copied by one Duplicate, SMMA periods in either order); wave 18 one defect of a
stub (the simulated SQL driver had no transactions) and value classes (a bar that is not a
number, zero members left out by the simulated Tiingo server, old file time stamps, the negative
zero, divisors that are no powers of two, early years, Appends of more than 1000 snapshots);
wave 19 the first two changes that sit behind a seam (the connection pool of net/http behind the
simulated transport, a rename across file systems behind the one-device file seam: "no", see
section 9) and six value and shape classes (element types of a numeric kind with their own JSON
form, files older than their rows, integer instantiations of Sqrt, a linked asset file, strategy
windows of 1, committees of 9-20 members, rows with a close but no high and low); wave 20 one
harness defect (the shared instance of C09 was built outside the simulation: a constructor-made
channel left a replay blocked until the time limit), one more driving mode (inputs queued before
the pipeline is built) and value classes (int64 beyond 2^53, inputs of 129-328 values, date
layouts that render longer than their text, a default start date in a zone ahead of UTC with the
Tiingo source, base strategies over 1030-1630 snapshots).

| seeded change | wave | what it does | needs | caught at once? | check and verdict |
|---|---|---|---|---|---|
"""
body = ''.join(f"| {r[0]} | {r[1]} | {r[2]} | {r[3]} | {r[4]} | {r[5]} |\n" for r in rows)
p = '/verif/DESIGN.md'
s = open(p).read()
i = s.index('## 10. Seeded-defect results')
open(p, 'w').write(s[:i] + head + body)
print(n, cnt, waves)
